"""Driver of C09 (exit status truth) and C10 (lifecycle safety)."""
import io
import json
import os
import signal
import socket
import sys
import time

from . import common
from . import life_sim as L
from .common import cbool, clist, cZ

RULE = ('operation sequences over {isalive, wait, kill(sig), terminate(force), close(force)} interleaved with the child exiting / being signalled by itself, for children that '
        'ignore SIGHUP and/or SIGINT or are stopped; the REAL pexpect.spawn methods run on the REAL ptyprocess methods with os.waitpid / os.kill answered by a Python copy of the '
        'process model; return values, all status fields of both objects, signals sent, descriptor closes compared with the Coq model after every operation; distinct = distinct model inputs')


def corr(ctx, pexpect, n, which):
    rng = ctx.rng
    cases = []
    nhit = 0
    for it in range(n):
        ih, ii, st = rng.random() < 0.4, rng.random() < 0.4, rng.random() < 0.2
        ops = L.gen_ops(rng, rng.randint(1, 7), foreign_reaper=(which == 'C09' and rng.random() < 0.3))
        try:
            obs, w = L.run_ops(pexpect, ih, ii, st, ops)
        except Exception as e:
            if nhit < 3:
                nhit += 1
                ctx.hit('%s/raises' % which, 'lifecycle operations %r raised %r' % (ops, e), {'ops': repr(ops), 'ign_hup': ih, 'ign_int': ii, 'stopped': st})
            continue
        bad = judge(which, ops, obs)
        if bad and nhit < 3:
            nhit += 1
            ctx.hit('%s/%s' % (which, bad[0]), 'child(ignores HUP=%s, INT=%s, stopped=%s), operations %r: %s' % (ih, ii, st, ops, bad[1]),
                    {'ops': repr(ops), 'ign_hup': ih, 'ign_int': ii, 'stopped': st, 'observed': repr(obs)})
        cases.append(('(%s, %s, %s, %s)' % (cbool(ih), cbool(ii), cbool(st), L.coq_ops(ops)), obs,
                      {'ign_hup': ih, 'ign_int': ii, 'stopped': st, 'ops': repr(ops)}))
    return cases


def decode(st):
    """(exitstatus, signalstatus) a wait status stands for"""
    if os.WIFEXITED(st):
        return (os.WEXITSTATUS(st), None)
    if os.WIFSIGNALED(st):
        return (None, os.WTERMSIG(st))
    return (None, None)


def judge(which, ops, obs):
    prev_fields = None
    fate = None
    alive = True
    for o, (r, snap) in zip(ops, obs):
        ch, pt, sp, kills, closes = snap
        if which == 'C09':
            observed = (o[0] == 'close' and r == [2]) or (o[0] == 'terminate' and r == [0, True]) or (o[0] == 'isalive' and r == [0, False]) \
                or (o[0] == 'wait' and r[0] == 1)
            if observed and not ch[0] and not sp[0]:
                return ('death-not-recorded', '%s observed that the child has terminated but terminated/exitstatus/signalstatus were not set (terminated=%r)' % (o[0], sp[0]))
            if sp[0]:                                    # terminated: the fields must be the real fate and never change
                fields = (tuple(sp[1]), tuple(sp[2]), tuple(sp[3]))
                if ch[0]:
                    return ('terminated-but-alive', 'terminated is True while the child is running')
                if prev_fields is not None and fields != prev_fields:
                    return ('status-changed', 'status fields changed from %r to %r after %r' % (prev_fields, fields, o))
                prev_fields = fields
                if not sp[1]:
                    return ('no-status', 'terminated is True but status is None')
                e, s_ = decode(sp[1][0])
                if (sp[2] and sp[3]) or (not sp[2] and not sp[3]):
                    return ('both-or-none', 'exitstatus=%r signalstatus=%r: exactly one must be set' % (sp[2], sp[3]))
                if (sp[2] and sp[2][0] != e) or (sp[3] and sp[3][0] != s_):
                    return ('wrong-status', 'exitstatus=%r signalstatus=%r, the wait status %r decodes to %r' % (sp[2], sp[3], sp[1][0], (e, s_)))
            if o[0] == 'wait' and r[0] == 1:
                if r[1] != sp[2]:
                    return ('wait-return', 'wait() returned %r, exitstatus is %r' % (r[1], sp[2]))
        else:
            if o[0] == 'isalive' and r == [0, True] and not ch[0]:
                return ('alive-lie', 'isalive() returned True for a child that has terminated')
            if o[0] == 'isalive' and r == [0, False] and ch[0]:
                return ('dead-lie', 'isalive() returned False for a running child')
            if sp[0] and (ch[0] or not ch[1]):
                return ('terminated-lie', 'terminated is True but the child is %s' % ('running' if ch[0] else 'an unreaped zombie'))
            if any(not k[1] for k in kills):
                return ('kill-dead', 'a signal was sent to a pid whose process had already terminated: %r' % (kills,))
            if o[0] == 'terminate' and o[1] and r[0] == 0 and (ch[0] or not ch[1] or r[1] is not True):
                return ('terminate-force', 'terminate(force=True) returned %r, child alive=%s reaped=%s' % (r[1], ch[0], ch[1]))
            if o[0] == 'close' and r == [2]:
                if (o[1] and (ch[0] or not ch[1])) or not sp[4] or sp[5] or pt[5]:
                    return ('close', 'after close(force=%s): child alive=%s reaped=%s closed=%s child_fd valid=%s descriptor open=%s'
                            % (o[1], ch[0], ch[1], sp[4], sp[5], pt[5]))
            if o[0] == 'close' and r[0] == 3 and sp[5]:
                return ('stale-fd', 'close(force=%s) raised but child_fd still holds the released descriptor number' % o[1])
            if o[0] == 'drop' and (ch[0] or not ch[1] or pt[5] or closes != 1):
                return ('drop', 'after the object was dropped: child alive=%s reaped=%s descriptor open=%s, closed %d times in total' % (ch[0], ch[1], pt[5], closes))
            if closes > 1:
                return ('double-close', 'the descriptor was closed %d times' % closes)
    return None


def wstatus_cases():
    cases = []
    for base in range(0, 65536, 2048):
        ss = list(range(base, base + 2048))
        exp = [[os.WIFEXITED(s), os.WEXITSTATUS(s), os.WIFSIGNALED(s), os.WTERMSIG(s), os.WIFSTOPPED(s)] for s in ss]
        cases.append((clist([cZ(s) for s in ss]), exp, {'statuses': '%d..%d' % (base, base + 2047)}))
    return cases


def real_C09(ctx, pexpect, thorough):
    """real children: every way of observing the death gives the real fate"""
    from pexpect import popen_spawn
    codes = list(range(256)) if thorough else [0, 1, 2, 7, 127, 128, 200, 255]
    sigs = [1, 2, 3, 6, 9, 11, 13, 14, 15, 35, 50, 64] if thorough else [1, 9, 15, 35, 64]
    tried = 0
    observers = ['isalive', 'wait', 'close', 'terminate', 'eof-isalive']
    for k, code in enumerate(codes):
        obs = observers[k % len(observers)]
        c = pexpect.spawn(sys.executable, ['-c', 'import sys; sys.exit(%d)' % code], timeout=10)
        tried += 1
        if not observe(ctx, c, obs, (code, None), 'exit(%d)' % code):
            return
    for k, sg in enumerate(sigs):
        obs = observers[k % len(observers)]
        # CPython starts with SIGPIPE / SIGXFSZ ignored: the child restores the default disposition before signalling itself
        c = pexpect.spawn(sys.executable, ['-c', 'import os,signal\nif %d not in (9, 19): signal.signal(%d, signal.SIG_DFL)\nos.kill(os.getpid(), %d)\nimport time; time.sleep(5)' % (sg, sg, sg)], timeout=10)
        tried += 1
        if not observe(ctx, c, obs, (None, sg), 'kill -%d' % sg):
            return
    # PopenSpawn.wait
    for code in codes[:8]:
        p = popen_spawn.PopenSpawn([sys.executable, '-c', 'import sys; sys.exit(%d)' % code])
        r = p.wait()
        r2 = p.wait()
        tried += 1
        if (r, r2, p.exitstatus, p.signalstatus, p.terminated) != (code, code, code, None, True):
            ctx.hit('C09/popen', 'PopenSpawn child exit(%d): wait() returned %r then %r, exitstatus=%r signalstatus=%r terminated=%r'
                    % (code, r, r2, p.exitstatus, p.signalstatus, p.terminated), {'code': code})
            return
    for sg in sigs:
        p = popen_spawn.PopenSpawn([sys.executable, '-c', 'import os,signal\nif %d not in (9, 19): signal.signal(%d, signal.SIG_DFL)\nos.kill(os.getpid(), %d)\nimport time; time.sleep(5)' % (sg, sg, sg)])
        try:
            r = p.wait()
            r2 = p.wait()
        except Exception as e:
            ctx.hit('C09/popen', 'PopenSpawn child killed by signal %d: wait() raised %r' % (sg, e), {'signal': sg})
            return
        tried += 1
        if (p.exitstatus, p.signalstatus, p.terminated) != (None, sg, True) or int(p.signalstatus) != sg:
            ctx.hit('C09/popen', 'PopenSpawn child killed by signal %d: exitstatus=%r signalstatus=%r terminated=%r' % (sg, p.exitstatus, p.signalstatus, p.terminated), {'signal': sg})
            return
    # PopenSpawn, the death observed through reads first: whatever the attributes say before wait() must already be the truth
    # and must not change afterwards
    for kind, val in [('exit', 3), ('exit', 0), ('sig', 15), ('sig', 9), ('sig', sigs[-1])]:
        prog = ('import sys; sys.exit(%d)' % val) if kind == 'exit' else \
            ('import os,signal\nif %d not in (9, 19): signal.signal(%d, signal.SIG_DFL)\nos.kill(os.getpid(), %d)\nimport time; time.sleep(5)' % (val, val, val))
        truth = (val, None) if kind == 'exit' else (None, val)
        p = popen_spawn.PopenSpawn([sys.executable, '-c', prog])
        snaps = []
        try:
            p.expect(pexpect.EOF)
            time.sleep(0.3)
            snaps.append(('expect(EOF)', p.exitstatus, p.signalstatus, p.terminated))
            try:
                p.expect(pexpect.EOF, timeout=1)
            except (pexpect.EOF, pexpect.TIMEOUT):
                pass
            snaps.append(('expect(EOF) again', p.exitstatus, p.signalstatus, p.terminated))
            p.wait()
            snaps.append(('wait()', p.exitstatus, p.signalstatus, p.terminated))
            p.wait()
            snaps.append(('wait() again', p.exitstatus, p.signalstatus, p.terminated))
        except Exception as e:
            ctx.hit('C09/popen', 'PopenSpawn child (%s %d) observed through reads then wait(): raised %r' % (kind, val, e), {'kind': kind, 'value': val})
            return
        tried += 1
        bad = None
        for name, ex, sg_, term in snaps:
            # (PopenSpawn's terminated attribute is True from the start - SpawnBase's default is never reset - so it says nothing)
            known = ex is not None or sg_ is not None
            if known and ((None if ex is None else int(ex)), (None if sg_ is None else int(sg_)), bool(term)) != (truth[0], truth[1], True):
                bad = 'after %s: (exitstatus, signalstatus, terminated) = %r, the real fate is %r' % (name, (ex, sg_, term), truth)
                break
        if not bad and (snaps[-1][1], snaps[-1][2], snaps[-1][3]) != (truth[0], truth[1], True) and not (snaps[-1][2] is not None and int(snaps[-1][2]) == truth[1]):
            bad = 'after wait(): %r, the real fate is %r' % (snaps[-1][1:], truth)
        if bad:
            ctx.hit('C09/popen', 'PopenSpawn child (%s %d): %s' % (kind, val, bad), {'kind': kind, 'value': val, 'snapshots': repr(snaps)})
            return
    # PopenSpawn: the child has died by itself, the application (not knowing) signals it, then waits: the status is still the real one
    for kind, val in (('exit', 7), ('exit', 255), ('signal', 10)):
        prog = 'import sys; sys.exit(%d)' % val if kind == 'exit' else 'import os,signal; signal.signal(%d, signal.SIG_DFL); os.kill(os.getpid(), %d)' % (val, val)
        p = popen_spawn.PopenSpawn([sys.executable, '-c', prog], timeout=10)
        time.sleep(0.6)
        try:
            p.kill(signal.SIGTERM)
        except OSError:
            pass
        try:
            w_ = p.wait()
        except Exception as e:
            ctx.hit('C09/popen', 'PopenSpawn child (%s %d) that had died by itself, then kill(SIGTERM), then wait(): raised %r' % (kind, val, e), {'kind': kind, 'value': val})
            return
        tried += 1
        want = (val, None) if kind == 'exit' else (None, val)
        if (p.exitstatus, p.signalstatus) != want or not p.terminated:
            ctx.hit('C09/popen', 'PopenSpawn child (%s %d) that had died by itself, then kill(SIGTERM), then wait() -> %r: exitstatus=%r signalstatus=%r terminated=%r'
                    % (kind, val, w_, p.exitstatus, p.signalstatus, p.terminated), {'kind': kind, 'value': val})
            return
    # run(withexitstatus)
    out, st = pexpect.run(sys.executable + ' -c "import sys; print(1); sys.exit(42)"', withexitstatus=True)
    tried += 1
    if st != 42:
        ctx.hit('C09/run', 'run(..., withexitstatus=True) returned status %r for exit(42)' % (st,), {})
    # run() that stops BEFORE the child's end of file (a callback returns True / the time runs out): the status it hands back is
    # still the child's fate as the spawn object recorded it - here children that shrug off the hang-up and leave by exit(N)
    for how, cmd, want in (('callback', '''sh -c 'trap "" HUP INT; echo DONE; sleep 0.2; exit 7' ''', (7, None)),
                           ('timeout', '''sh -c 'trap "" HUP INT; echo READY; read x; exit 42' ''', (42, None)),
                           # ... and runs that reach EOF because the command dies of a signal: there is no exit code then
                           ('eof', '''sh -c 'echo DONE; kill -TERM $$' ''', (None, 15)),
                           ('eof', '''sh -c 'echo DONE; kill -KILL $$' ''', (None, 9)),
                           ('eof', '''sh -c 'echo DONE; exit 143' ''', (143, None))):
        seen = {}

        def stop(d):
            seen['child'] = d['child']
            return True

        def note(d):
            seen['child'] = d['child']
        try:
            if how == 'callback':
                out, st = pexpect.run(cmd, withexitstatus=True, events=[('DONE', stop)], timeout=10)
            elif how == 'eof':
                out, st = pexpect.run(cmd, withexitstatus=True, events=[('DONE', note)], timeout=10)
            else:
                out, st = pexpect.run(cmd, withexitstatus=True, events=[(pexpect.TIMEOUT, stop)], timeout=1)
        except Exception as e:
            ctx.hit('C09/run', 'run(%r, withexitstatus=True) stopped by a %s raised %r' % (cmd, how, e), {'cmd': cmd, 'how': how})
            return
        tried += 1
        child = seen.get('child')
        if child is None or st != child.exitstatus or (child.exitstatus, child.signalstatus) != want:
            ctx.hit('C09/run', 'run(%r, withexitstatus=True) ended by %s returned status %r; the spawn object says exitstatus=%r signalstatus=%r; the real fate is (exit code, signal) = %r'
                    % (cmd, how, st, getattr(child, 'exitstatus', '?'), getattr(child, 'signalstatus', '?'), want), {'cmd': cmd, 'how': how})
            return
    ctx.oracle_stats['real_children'] = tried
    # an application that ignores SIGCHLD (the kernel reaps by itself, pexpect cannot learn the fate): it may raise, but what it
    # reports must not be invented.  Run in a process of its own (the disposition is process-wide).
    import json
    import subprocess
    pr = subprocess.run([sys.executable, '-m', 'harness.sigchld_probe'], cwd=common.VERIF, stdout=subprocess.PIPE, stderr=subprocess.PIPE, timeout=120,
                        env=dict(os.environ, PYTHONPATH=common.REPO))
    try:
        rows = json.loads(pr.stdout.decode().strip().splitlines()[-1])
    except Exception:
        ctx.hit('C09/sigchld-ignored', 'the probe did not finish: %r' % (pr.stderr.decode()[-400:],), {})
        return
    for fate, observer, res in rows:
        want = (3, None) if fate == 'exit 3' else (0, None) if fate == 'exit 0' else (None, 15)
        claims = res['terminated'] or res['exitstatus'] is not None or res['signalstatus'] is not None or 'wait' in res
        if claims and ((res['exitstatus'], res['signalstatus']) != want or ('wait' in res and res['wait'] != want[0])):
            ctx.hit('C09/sigchld-ignored', 'the application ignores SIGCHLD; child fate %s observed by %s: pexpect reports %r' % (fate, observer, res),
                    {'fate': fate, 'observer': observer})
            return
    ctx.oracle_stats['sigchld_ignored_observations'] = len(rows)


def observe(ctx, c, how, fate, what):
    pexpect = common.preflight()
    try:
        if how != 'close' and how != 'terminate':
            c.expect(pexpect.EOF)
        # give the kernel a moment to turn the child into a zombie
        t0 = time.time()
        while time.time() - t0 < 5:
            try:
                if open('/proc/%d/stat' % c.pid).read().rsplit(') ', 1)[1][0] == 'Z':
                    break
            except Exception:
                break
            time.sleep(0.01)
        if how == 'isalive' or how == 'eof-isalive':
            alive = c.isalive()
            ret = None
        elif how == 'wait':
            ret = c.wait()
            alive = False
        elif how == 'close':
            c.close()
            alive = False
            ret = None
        else:
            c.terminate(force=True)
            alive = c.isalive()
            ret = None
        first = (c.terminated, c.exitstatus, c.signalstatus, c.status)
        # repeat every observation: nothing may change
        c.isalive()
        w2 = c.wait()
        c.close()
        c.isalive()
        second = (c.terminated, c.exitstatus, c.signalstatus, c.status)
    except Exception as e:
        ctx.hit('C09/real', 'child %s observed by %s: raised %r' % (what, how, e), {'child': what, 'observer': how})
        return False
    if how in ('close', 'terminate') and fate[0] is not None:
        # the child may have been hung up / signalled by the operation itself before it exited: accept the real wait status only
        ok = first == second and c.terminated and ((c.exitstatus is None) != (c.signalstatus is None))
        dec = decode(c.status) if c.status is not None else None
        ok = ok and dec == (c.exitstatus, c.signalstatus)
    else:
        ok = first == second and first[0] is True and (first[1], first[2]) == fate and c.status is not None and decode(c.status) == fate
        if how == 'wait':
            ok = ok and ret == fate[0] and w2 == fate[0]
    if not ok:
        ctx.hit('C09/real', 'child %s observed by %s: (terminated, exitstatus, signalstatus, status) = %r, after repeating the observations %r; real fate %r'
                % (what, how, first, second, fate), {'child': what, 'observer': how})
        return False
    return True


def proc_state(pid):
    try:
        return open('/proc/%d/stat' % pid).read().rsplit(') ', 1)[1][0]
    except Exception:
        return None


def real_C10(ctx, pexpect, thorough):
    """real children with each disposition: liveness is never misreported, close()/terminate(force) leave the child dead and
    reaped, descriptors are released once, I/O after close fails with an error"""
    from pexpect import fdpexpect, socket_pexpect
    progs = {
        'normal': 'import time,os\nos.write(1,b"R")\ntime.sleep(30)',
        'ignores': 'import time,os,signal\nsignal.signal(signal.SIGHUP,signal.SIG_IGN); signal.signal(signal.SIGINT,signal.SIG_IGN)\nos.write(1,b"R")\nwhile True: time.sleep(1)',
        'stopped': 'import time,os,signal\nos.write(1,b"R")\nos.kill(os.getpid(), signal.SIGSTOP)\ntime.sleep(30)',
        'exited': 'import os\nos.write(1,b"R")',
    }
    tried = 0
    fds_before = set(os.listdir('/proc/self/fd'))
    for name, prog in progs.items():
        for seq in (['close'], ['terminate_force', 'close'], ['isalive', 'close', 'close'], ['with'], ['close_soft', 'close']):
            if seq == ['close_soft', 'close'] and name != 'ignores':
                continue
            c = pexpect.spawn(sys.executable, ['-c', prog], timeout=10)
            c.expect('R')
            if len(seq) + len(name) & 1:
                # a log file that the application has closed already is still attached: closing the child must not depend on it
                lf = io.BytesIO()
                c.logfile_send = lf
                lf.close()
            if name == 'stopped':
                t0 = time.time()
                while proc_state(c.pid) != 'T' and time.time() - t0 < 3:
                    time.sleep(0.01)
            if name == 'exited':
                c.expect(pexpect.EOF)
            pid, fd = c.pid, c.child_fd
            tried += 1
            try:
                for op in seq:
                    if op == 'close':
                        c.close()
                    elif op == 'close_soft':
                        try:
                            c.close(force=False)
                        except pexpect.ExceptionPexpect:
                            pass
                        if c.child_fd != -1:
                            ctx.hit('C10/stale-fd', 'close(force=False) on a child that ignores HUP/INT left child_fd=%d' % c.child_fd, {'child': name})
                            return
                        # the descriptor is gone although the child lives on: I/O on the object must fail and must not reach
                        # whoever owns the old number now
                        bad = foreign_fd_probe(pexpect, c, fd)
                        if bad:
                            ctx.hit('C10/io-after-close', 'pty spawn (%s child) after a close(force=False) that could not end the child: %s' % (name, bad), {'child': name, 'ops': seq})
                            return
                    elif op == 'terminate_force':
                        r = c.terminate(force=True)
                        if not r or proc_state(pid) is not None:
                            ctx.hit('C10/terminate-force', 'terminate(force=True) on a %s child returned %r; /proc state %r' % (name, r, proc_state(pid)), {'child': name})
                            return
                    elif op == 'isalive':
                        a = c.isalive()
                        if a != (name != 'exited'):
                            ctx.hit('C10/alive-lie', 'isalive() = %r for a %s child' % (a, name), {'child': name})
                            return
                    elif op == 'with':
                        try:
                            with c:
                                raise KeyError('leave')
                        except KeyError:
                            pass
            except Exception as e:
                ctx.hit('C10/real', '%s child, operations %r: raised %r' % (name, seq, e), {'child': name, 'ops': seq})
                return
            st = proc_state(pid)
            if st is not None or not c.closed or c.child_fd != -1 or c.isalive() or not c.terminated:
                ctx.hit('C10/close', '%s child after %r: /proc state %r (None = gone and reaped), closed=%r child_fd=%r isalive=%r terminated=%r'
                        % (name, seq, st, c.closed, c.child_fd, c.isalive(), c.terminated), {'child': name, 'ops': seq})
                return
            bad = foreign_fd_probe(pexpect, c, fd)
            if bad:
                ctx.hit('C10/io-after-close', 'pty spawn (%s child) after %r: %s' % (name, seq, bad), {'child': name, 'ops': seq})
                return
    fds_after = set(os.listdir('/proc/self/fd'))
    if len(fds_after) > len(fds_before) + 1:
        ctx.hit('C10/fd-leak', 'descriptors leaked: %d open before, %d after %d children' % (len(fds_before), len(fds_after), tried), {})
    # fdspawn / SocketSpawn: close is idempotent, releases the descriptor, I/O afterwards fails
    r, w = os.pipe()
    f = fdpexpect.fdspawn(r)
    f.close()
    f.close()
    r2, w2 = os.pipe()       # very likely reuses the number
    bad = None
    try:
        f.send(b'intruder')
        bad = 'fdspawn.send() after close() succeeded'
    except (OSError, ValueError, pexpect.ExceptionPexpect):
        pass
    bad = bad or io_after_close(pexpect, f)
    if f.isalive() or f.child_fd != -1 or not f.closed:
        bad = 'fdspawn after close(): isalive=%r child_fd=%r closed=%r' % (f.isalive(), f.child_fd, f.closed)
    for x in (w, r2, w2):
        os.close(x)
    if bad:
        ctx.hit('C10/fdspawn-close', bad, {})
    a, b = socket.socketpair()
    s = socket_pexpect.SocketSpawn(a)
    s.close()
    s.close()
    bad = None
    try:
        s.send(b'x')
        bad = 'SocketSpawn.send() after close() succeeded'
    except (OSError, ValueError, pexpect.ExceptionPexpect):
        pass
    bad = bad or io_after_close(pexpect, s)
    if s.isalive() or s.child_fd != -1 or not s.closed:
        bad = 'SocketSpawn after close(): isalive=%r child_fd=%r closed=%r' % (s.isalive(), s.child_fd, s.closed)
    b.close()
    if bad:
        ctx.hit('C10/socket-close', bad, {})
    ctx.oracle_stats['real_children'] = tried
    socket_close_releases(ctx, pexpect)
    async_after_close(ctx, pexpect)
    drop_releases(ctx, pexpect)


def async_after_close(ctx, pexpect):
    """an object that has been used with awaited calls (asyncio keeps a transport for its descriptor), then closed: a further
    awaited call fails with an error and does not read from whoever owns the old descriptor number now"""
    import asyncio
    import socket
    from pexpect import fdpexpect, socket_pexpect
    tried = 0
    for transport in ('pty', 'pty-soft-close-fails', 'fd', 'socket'):
        loop = asyncio.new_event_loop()
        asyncio.set_event_loop(loop)
        keep = []
        c = None
        try:
            if transport.startswith('pty'):
                prog = ('import time,os,signal\nsignal.signal(signal.SIGHUP,signal.SIG_IGN); signal.signal(signal.SIGINT,signal.SIG_IGN)\n'
                        'os.write(1,b"R")\nwhile True: time.sleep(1)') if transport != 'pty' else 'import time,os\nos.write(1,b"R")\ntime.sleep(30)'
                c = pexpect.spawn(sys.executable, ['-c', prog], timeout=10)
            elif transport == 'fd':
                r0, w0 = os.pipe()
                os.write(w0, b'R')
                keep.append(w0)
                c = fdpexpect.fdspawn(r0, timeout=10)
            else:
                a, b = socket.socketpair()
                b.sendall(b'R')
                keep.append(b)
                c = socket_pexpect.SocketSpawn(a, timeout=10)
            loop.run_until_complete(c.expect_exact(b'R', async_=True))
            fd = c.child_fd
            try:
                c.close(force=False) if transport == 'pty-soft-close-fails' else c.close()
            except pexpect.ExceptionPexpect:
                pass
            # somebody else gets the number: a pipe that holds a secret
            pipes = []
            while len(pipes) < 64 and not any(r_ == fd for r_, _ in pipes):
                pipes.append(os.pipe())
            owner = next(((r_, w_) for r_, w_ in pipes if r_ == fd), None)
            if owner is not None:
                os.write(owner[1], b'SECRET')
            try:
                idx = loop.run_until_complete(asyncio.wait_for(c.expect_exact([b'SECRET', pexpect.TIMEOUT, pexpect.EOF], timeout=0.5, async_=True), 5))
                out = 'returned index %r (before=%r, after=%r)' % (idx, c.before, c.after)
            except (pexpect.EOF, pexpect.TIMEOUT) as e:
                out = 'reported %s' % type(e).__name__
            except Exception:
                out = None                    # an error: what the property asks for
            stolen = False
            if owner is not None:
                os.set_blocking(owner[0], False)
                try:
                    stolen = os.read(owner[0], 100) != b'SECRET'
                except BlockingIOError:
                    stolen = True
            tried += 1
            for r_, w_ in pipes:
                for f_ in (r_, w_):
                    try:
                        os.close(f_)
                    except OSError:
                        pass
            if out is not None or stolen:
                ctx.hit('C10/await-after-close', '%s: after an awaited expect and close(), a further awaited expect %s%s'
                        % (transport, out or 'raised an error', '; it took the data of the unrelated pipe that had been given descriptor number %d' % fd if stolen else ''),
                        {'transport': transport})
                return
        except Exception as e:
            ctx.hit('C10/await-after-close', '%s: %r' % (transport, e), {'transport': transport})
            return
        finally:
            try:
                if c is not None and c.async_pw_transport:
                    c.async_pw_transport[1].abort() if hasattr(c.async_pw_transport[1], 'abort') else None
            except Exception:
                pass
            try:
                if c is not None and transport.startswith('pty'):
                    c.close(force=True)
            except Exception:
                pass
            for k_ in keep:
                try:
                    k_.close() if hasattr(k_, 'close') else os.close(k_)
                except Exception:
                    pass
            try:
                loop.run_until_complete(asyncio.sleep(0))
            except Exception:
                pass
            loop.close()
            asyncio.set_event_loop(None)
    ctx.oracle_stats['await_after_close'] = tried


def socket_close_releases(ctx, pexpect):
    """SocketSpawn.close() releases the socket whatever state the connection is in: peer gone, connection reset, never connected"""
    import socket
    import struct
    from pexpect import socket_pexpect
    tried = 0
    scen = []
    u = socket.socket(socket.AF_UNIX, socket.SOCK_STREAM)
    scen.append(('a stream socket that is not connected', u))
    try:
        srv = socket.socket()
        srv.bind(('127.0.0.1', 0))
        srv.listen(1)
        cl = socket.create_connection(srv.getsockname(), timeout=2)
        acc, _ = srv.accept()
        acc.setsockopt(socket.SOL_SOCKET, socket.SO_LINGER, struct.pack('ii', 1, 0))
        acc.close()                 # the peer resets the connection
        srv.close()
        time.sleep(0.1)
        try:
            cl.recv(10)             # the reset is noticed
        except OSError:
            pass
        scen.append(('a TCP connection reset by the peer', cl))
    except OSError:
        pass                        # no loopback here: the first scenario has to do
    for what, sock in scen:
        s_ = socket_pexpect.SocketSpawn(sock, timeout=2)
        err = None
        try:
            s_.close()
        except Exception as e:
            err = e
        tried += 1
        still_open = sock.fileno() != -1
        if still_open or not s_.closed or s_.child_fd != -1:
            ctx.hit('C10/socket-close', 'SocketSpawn.close() on %s %s: the socket is %s, closed=%r child_fd=%r'
                    % (what, 'raised %r' % (err,) if err else 'returned', 'still open' if still_open else 'released', s_.closed, s_.child_fd), {'scenario': what})
            try:
                sock.close()
            except OSError:
                pass
            return
    ctx.oracle_stats['socket_close_scenarios'] = tried


def drop_releases(ctx, pexpect):
    """dropping the object (the last reference goes away, the collector has run): whatever was done with it before - expect with
    string, compiled and exact patterns, listed or raised TIMEOUT / EOF, sends, log files - the descriptor is released and the
    child is gone.  Nothing in the library may keep dropped objects alive."""
    import gc
    import re
    tried = 0
    for hist in (['expect-str'], ['expect-str', 'timeout-raised'], ['expect-list', 'send'], ['exact', 'timeout-listed'], ['expect-str', 'eof'],
                 ['compile', 'expect-str', 'logfile']):
        prog = 'print("R")' if 'eof' in hist else 'import time; print("R"); time.sleep(30)'
        c = pexpect.spawn(sys.executable, ['-c', prog], timeout=5)
        try:
            for h_ in hist:
                if h_ == 'expect-str':
                    c.expect(['R', 'never'])
                elif h_ == 'expect-list':
                    c.expect_list([re.compile(b'R')])
                elif h_ == 'exact':
                    c.expect_exact(b'R')
                elif h_ == 'compile':
                    c.compile_pattern_list(['a.c', b'xyz'])
                elif h_ == 'send':
                    c.sendline('x')
                elif h_ == 'logfile':
                    c.logfile_read = io.BytesIO()
                elif h_ == 'timeout-raised':
                    try:
                        c.expect('never', timeout=0.1)
                    except pexpect.TIMEOUT:
                        pass
                elif h_ == 'timeout-listed':
                    c.expect(['never', pexpect.TIMEOUT], timeout=0.1)
                elif h_ == 'eof':
                    c.expect(pexpect.EOF)
        except Exception as e:
            ctx.hit('C10/drop', 'history %r raised %r' % (hist, e), {'history': hist})
            return
        pid, fd = c.pid, c.child_fd
        ino = os.fstat(fd).st_ino, os.fstat(fd).st_dev
        del c
        gc.collect()
        t0 = time.time()
        while proc_state(pid) is not None and time.time() - t0 < 3:
            time.sleep(0.05)
        tried += 1
        try:
            st = os.fstat(fd)
            fd_open = (st.st_ino, st.st_dev) == ino
        except OSError:
            fd_open = False
        if proc_state(pid) is not None or fd_open:
            ctx.hit('C10/drop', 'after %r the object was dropped and the collector run: child state %r (None = gone and reaped), its descriptor %d is %s'
                    % (hist, proc_state(pid), fd, 'still open' if fd_open else 'released'), {'history': hist})
            try:
                os.kill(pid, 9)
            except OSError:
                pass
            return
    ctx.oracle_stats['drop_histories'] = tried


def foreign_fd_probe(pexpect, c, fd):
    """I/O after close fails with an error and does not touch whoever owns the old descriptor number now: files are opened until
    the number is taken again, the whole I/O family is called on the object, and every one of those files must still be empty"""
    fds = []
    # (a log file attached to the object is not what is probed here: with one that is closed the send family would fail before it
    # reaches the descriptor)
    c.logfile = c.logfile_read = c.logfile_send = None
    try:
        while fd not in fds and len(fds) < 64:
            fds.append(os.memfd_create('verif-probe'))
        bad = io_after_close(pexpect, c)
        if bad:
            return bad
        for f in fds:
            n = os.fstat(f).st_size
            if n:
                return 'I/O on the closed object wrote %d bytes (%r) into an unrelated file that had been given descriptor number %d' % (n, os.pread(f, 64, 0), f)
        return None
    finally:
        for f in fds:
            try:
                os.close(f)
            except OSError:
                pass


def io_after_close(pexpect, c):
    """after close() every I/O call fails with an error: it neither returns normally nor reports EOF / TIMEOUT as if the
    stream were still the child's (an end-of-file or a timeout would be a statement about a descriptor that is gone)"""
    eof_before = bool(getattr(c, 'flag_eof', False))
    calls = [('read_nonblocking', lambda: c.read_nonblocking(1, 0.1)), ('send', lambda: c.send(b'x')), ('sendline', lambda: c.sendline(b'x')),
             ('expect', lambda: c.expect(b'x', timeout=0.1)), ('expect(EOF)', lambda: c.expect(pexpect.EOF, timeout=0.1)),
             ('expect_exact([x, EOF, TIMEOUT])', lambda: c.expect_exact([b'x', pexpect.EOF, pexpect.TIMEOUT], timeout=0.1)),
             ('read', lambda: c.read()), ('readline', lambda: c.readline()), ('write', lambda: c.write(b'y')),
             ('writelines', lambda: c.writelines([b'z'])), ('sendcontrol', lambda: c.sendcontrol('c')), ('sendeof', lambda: c.sendeof()),
             ('sendintr', lambda: c.sendintr())]
    calls = [(w_, f_) for w_, f_ in calls if hasattr(c, w_.split('(')[0])]
    for what, fn in calls:
        try:
            r = fn()
            return '%s after close() returned %r instead of failing' % (what, r)
        except (pexpect.EOF, pexpect.TIMEOUT) as e:
            return '%s after close() reported %s instead of failing with an error' % (what, type(e).__name__)
        except (ValueError, OSError, pexpect.ExceptionPexpect):
            pass
    if getattr(c, 'flag_eof', False) and not eof_before:
        return 'flag_eof became True after close() although the peer never closed'
    return None


def fd_life_cases(ctx, pexpect, n):
    """job fd-life: the REAL close / isalive / send of fdspawn and SocketSpawn on a fake descriptor / socket object (os.close,
    os.fstat, os.write and the socket methods answered by a one-bit model of the OS descriptor) against Life/FdModel.v"""
    from pexpect import fdpexpect, socket_pexpect
    rng = ctx.rng
    FD = 987
    cases = []
    for it in range(n):
        is_socket = rng.random() < 0.5
        ops = [rng.choice(['close', 'close', 'isalive', 'send', 'ext']) for _ in range(rng.randint(1, 7))]
        st = {'open': True, 'releases': 0}
        saved = (os.close, os.fstat, os.write)

        def oclose(fd):
            if fd != FD:
                return saved[0](fd)
            if not st['open']:
                raise OSError(9, 'Bad file descriptor')
            st['open'] = False
            st['releases'] += 1

        def ofstat(fd):
            if fd != FD:
                return saved[1](fd)
            if not st['open']:
                raise OSError(9, 'Bad file descriptor')
            return os.stat_result((0o20620, 0, 0, 1, 0, 0, 0, 0, 0, 0))

        def owrite(fd, b):
            if fd != FD:
                return saved[2](fd, b)
            if not st['open']:
                raise OSError(9, 'Bad file descriptor')
            return len(b)

        class Sock:
            def fileno(self_):
                return FD if st['open'] else -1

            def gettimeout(self_):
                return None

            def settimeout(self_, t):
                pass

            def shutdown(self_, how):
                if not st['open']:
                    raise OSError(9, 'Bad file descriptor')

            def close(self_):
                if st['open']:
                    st['open'] = False
                    st['releases'] += 1

            def sendall(self_, b):
                if not st['open']:
                    raise OSError(9, 'Bad file descriptor')

            def send(self_, b):
                if not st['open']:
                    raise OSError(9, 'Bad file descriptor')
                return len(b)
        os.close, os.fstat, os.write = oclose, ofstat, owrite
        obs = []
        try:
            if is_socket:
                c = socket_pexpect.SocketSpawn(Sock(), timeout=1)
            else:
                c = fdpexpect.fdspawn(FD, timeout=1)
            for o in ops:
                try:
                    if o == 'close':
                        c.close()
                        r = [0]
                    elif o == 'isalive':
                        r = [1, bool(c.isalive())]
                    elif o == 'send':
                        c.send(b'x')
                        r = [0]
                    else:
                        if not is_socket:
                            st['open'] = False          # somebody else closes the descriptor
                        r = [0]
                except (OSError, ValueError, pexpect.ExceptionPexpect):
                    r = [2]
                obs.append([r, [c.child_fd != -1, bool(c.closed), st['open'], st['releases']]])
        finally:
            os.close, os.fstat, os.write = saved
        cops = clist(['FClose' if o == 'close' else 'FIsalive' if o == 'isalive' else 'FSend' if o == 'send' else 'FExternalClose' for o in ops])
        cases.append(('(%s, %s)' % (cbool(is_socket), cops), obs, {'socket': is_socket, 'ops': ops}))
    ctx.run_cases('fd-life', ['Life.FdModel', 'Life.Run'], 'run_fdlife', 'bool * list fop', cases, shard=500)


def run_property(ctx, which, props_file):
    pexpect = common.preflight()
    thorough = ctx.tier == 'thorough'
    ctx.trusted += ['Coq 8.16.1 kernel (coqc); vm_compute evaluates model cases; no native_compute',
                    'hand-written Life/Model.v: pexpect.spawn.{isalive,wait,kill,terminate,close} over ptyprocess.{isalive,kill,terminate,close} over a MODEL of the child process, signal delivery, waitpid and the wait-status macros; '
                    'tied to the code by job life-sim (the real methods of both libraries run with os.waitpid / os.kill answered by a Python copy of the process model) and job wstatus (W* macros vs os.W* on all 65536 statuses)',
                    'the process model (what Linux does with signals, zombies, hang-up) is an assumption, exercised on real children with each disposition']
    ctx.assumptions += ['a signalled child is a zombie by the time the following liveness check runs (delayafterterminate); nobody else reaps the child',
                        'ptyprocess is outside the repository: its logic is part of the model because the properties depend on it']
    ok = ctx.build(props_file, extra=['Life/Run.v'])
    cases = corr(ctx, pexpect, 30000 if thorough else 4000, which)
    if os.path.exists(os.path.join(common.COQ, 'Life/Run.vo')):
        ctx.run_cases('life-sim', ['Life.Model', 'Life.Run'], 'run_life', 'bool * bool * bool * list lop', cases, shard=400)
        if which == 'C09':
            ctx.run_cases('wstatus', ['Life.Model', 'Life.Run'], 'run_wstatus', 'list Z', wstatus_cases(), shard=4)
    else:
        ctx.corr_broken.append(('life-sim', {'error': 'model did not build'}))
    if which == 'C09':
        real_C09(ctx, pexpect, thorough)
    else:
        if os.path.exists(os.path.join(common.COQ, 'Life/Run.vo')):
            fd_life_cases(ctx, pexpect, 6000 if thorough else 1200)
        real_C10(ctx, pexpect, thorough)


def replay(ctx, path):
    print(json.dumps(json.load(open(path)), indent=1)[:4000])
    return 1
