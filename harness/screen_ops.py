"""Operation sequences on pexpect.screen: generator, real-code runner, Coq terms, reference grid (C19, also C18)."""
import itertools

from .common import cZ, cN, clist

# name, argument kinds (Z = coordinate/count, C = character)
OPS = [
    ('put_abs', 'ZZC', 'OPutAbs'), ('put', 'C', 'OPut'), ('insert_abs', 'ZZC', 'OInsertAbs'), ('insert', 'C', 'OInsert'),
    ('fill', 'C', 'OFill'), ('fill_region', 'ZZZZC', 'OFillRegion'),
    ('cr', '', 'OCr'), ('lf', '', 'OLf'), ('crlf', '', 'OCrlf'),
    ('cursor_home', 'ZZ', 'OHome'), ('cursor_back', 'Z', 'OBack'), ('cursor_down', 'Z', 'ODown'),
    ('cursor_forward', 'Z', 'OForward'), ('cursor_up', 'Z', 'OUp'), ('cursor_up_reverse', '', 'OUpReverse'),
    ('cursor_save_attrs', '', 'OSave'), ('cursor_restore_attrs', '', 'ORestore'),
    ('scroll_screen', '', 'OScrollScreen'), ('scroll_screen_rows', 'ZZ', 'OScrollRows'),
    ('scroll_down', '', 'OScrollDown'), ('scroll_up', '', 'OScrollUp'),
    ('erase_end_of_line', '', 'OEraseEol'), ('erase_start_of_line', '', 'OEraseSol'), ('erase_line', '', 'OEraseLine'),
    ('erase_down', '', 'OEraseDown'), ('erase_up', '', 'OEraseUp'), ('erase_screen', '', 'OEraseScreen'),
]
# aliases that must behave like an op above (documented as identical)
ALIASES = {'newline': 'crlf', 'cursor_force_position': 'cursor_home', 'cursor_save': 'cursor_save_attrs',
           'cursor_unsave': 'cursor_restore_attrs'}
BY_NAME = {o[0]: o for o in OPS}


def arg_values(rows, cols):
    return sorted(set([-2, 0, 1, 2, rows - 1, rows, rows + 1, cols, cols + 1, 1000000]))


def gen_op(rng, rows, cols, letters):
    name, kinds, _ = rng.choice(OPS)
    args = []
    for k in kinds:
        if k == 'Z':
            args.append(rng.choice(arg_values(rows, cols)))
        else:
            args.append(rng.choice(letters))
    return (name, tuple(args))


def coq_op(op):
    name, args = op
    _, kinds, ctor = BY_NAME[name]
    if not args:
        return ctor
    parts = [cZ(a) if k == 'Z' else cN(ord(a[0])) for a, k in zip(args, kinds)]
    return '(%s %s)' % (ctor, ' '.join(parts))


def snapshot(s):
    return [[[ord(ch) for ch in row] for row in s.w], s.cur_r, s.cur_c, s.cur_saved_r, s.cur_saved_c,
            s.scroll_row_start, s.scroll_row_end, s.dump(), str(s), s.pretty(), ord(s.get())]


def run_real(screen_mod, rows, cols, ops, as_bytes=False, use_alias=False):
    s = screen_mod.screen(rows, cols)
    out = []
    inv = {v: k for k, v in ALIASES.items()}
    for name, args in ops:
        a = tuple((x.encode('latin-1') if as_bytes and isinstance(x, str) else x) for x in args)
        n = inv.get(name, name) if use_alias else name
        getattr(s, n)(*a)
        out.append(snapshot(s))
    return s, out


# ---------------------------------------------------------------------------------------------
# reference grid: the documented meaning of every operation, cell by cell (1-based coordinates)
# ---------------------------------------------------------------------------------------------
class Ref:
    def __init__(self, rows, cols):
        self.rows, self.cols = rows, cols
        self.g = {(r, c): ' ' for r in range(1, rows + 1) for c in range(1, cols + 1)}
        self.r = self.c = self.sr = self.sc = 1
        self.top, self.bot = 1, rows

    def cl(self, n, hi):
        return min(max(n, 1), hi)

    def rect(self, rs, cs, re, ce):
        rs, re = sorted((self.cl(rs, self.rows), self.cl(re, self.rows)))
        cs, ce = sorted((self.cl(cs, self.cols), self.cl(ce, self.cols)))
        return [(r, c) for r in range(rs, re + 1) for c in range(cs, ce + 1)]

    def goto(self, r, c):
        self.r, self.c = self.cl(r, self.rows), self.cl(c, self.cols)

    def put_abs(self, r, c, ch):
        self.g[(self.cl(r, self.rows), self.cl(c, self.cols))] = ch[0]

    def put(self, ch):
        self.put_abs(self.r, self.c, ch)

    def insert_abs(self, r, c, ch):
        r, c = self.cl(r, self.rows), self.cl(c, self.cols)
        old = dict(self.g)
        for ci in range(c + 1, self.cols + 1):
            self.g[(r, ci)] = old[(r, ci - 1)]
        self.g[(r, c)] = ch[0]

    def insert(self, ch):
        self.insert_abs(self.r, self.c, ch)

    def fill(self, ch):
        for k in self.g:
            self.g[k] = ch[0]

    def fill_region(self, rs, cs, re, ce, ch):
        for k in self.rect(rs, cs, re, ce):
            self.g[k] = ch[0]

    def cr(self):
        self.c = 1

    def scroll_up(self):
        # rows top .. bot-1 take the contents of the row below; other rows (incl. bot) unchanged
        old = dict(self.g)
        for r in range(self.top, self.bot):
            for c in range(1, self.cols + 1):
                self.g[(r, c)] = old[(r + 1, c)]

    def scroll_down(self):
        old = dict(self.g)
        for r in range(self.top + 1, self.bot + 1):
            for c in range(1, self.cols + 1):
                self.g[(r, c)] = old[(r - 1, c)]

    def erase_line(self):
        self.fill_region(self.r, 1, self.r, self.cols, ' ')

    def lf(self):
        if self.r < self.rows:
            self.r += 1
        else:
            self.scroll_up()
            self.erase_line()

    def crlf(self):
        self.cr()
        self.lf()

    def cursor_home(self, r, c):
        self.goto(r, c)

    def cursor_back(self, n):
        self.goto(self.r, self.c - n)

    def cursor_forward(self, n):
        self.goto(self.r, self.c + n)

    def cursor_down(self, n):
        self.goto(self.r + n, self.c)

    def cursor_up(self, n):
        self.goto(self.r - n, self.c)

    def cursor_up_reverse(self):
        if self.r > 1:
            self.r -= 1
        else:
            self.scroll_up()          # what the source does at the top row (the source has no documentation for it)

    def cursor_save_attrs(self):
        self.sr, self.sc = self.r, self.c

    def cursor_restore_attrs(self):
        self.goto(self.sr, self.sc)

    def scroll_screen(self):
        self.top, self.bot = 1, self.rows

    def scroll_screen_rows(self, a, b):
        self.top, self.bot = self.cl(a, self.rows), self.cl(b, self.rows)

    def erase_end_of_line(self):
        self.fill_region(self.r, self.c, self.r, self.cols, ' ')

    def erase_start_of_line(self):
        self.fill_region(self.r, 1, self.r, self.c, ' ')

    def erase_down(self):
        self.erase_end_of_line()
        for r in range(self.r + 1, self.rows + 1):
            for c in range(1, self.cols + 1):
                self.g[(r, c)] = ' '

    def erase_up(self):
        self.erase_start_of_line()
        for r in range(1, self.r):
            for c in range(1, self.cols + 1):
                self.g[(r, c)] = ' '

    def erase_screen(self):
        self.fill(' ')

    def grid(self):
        return [[ord(self.g[(r, c)]) for c in range(1, self.cols + 1)] for r in range(1, self.rows + 1)]

    def lines(self):
        return [''.join(self.g[(r, c)] for c in range(1, self.cols + 1)) for r in range(1, self.rows + 1)]

    def snapshot(self):
        ls = self.lines()
        top = '+' + '-' * self.cols + '+\n'
        return [self.grid(), self.r, self.c, self.sr, self.sc, self.top, self.bot, ''.join(ls), '\n'.join(ls),
                top + '\n'.join('|' + l + '|' for l in ls) + '\n' + top, ord(self.g[(self.r, self.c)])]

    def get_abs(self, r, c):
        return self.g[(self.cl(r, self.rows), self.cl(c, self.cols))]

    def get_region(self, rs, cs, re, ce):
        rs, re = sorted((self.cl(rs, self.rows), self.cl(re, self.rows)))
        cs, ce = sorted((self.cl(cs, self.cols), self.cl(ce, self.cols)))
        return [''.join(self.g[(r, c)] for c in range(cs, ce + 1)) for r in range(rs, re + 1)]


FIELDS = ['grid', 'cur_r', 'cur_c', 'cur_saved_r', 'cur_saved_c', 'scroll_row_start', 'scroll_row_end', 'dump()', 'str()', 'pretty()', 'get()']


def compare_with_ref(rows, cols, ops, snaps):
    """returns None or (op index, field, real, expected)"""
    ref = Ref(rows, cols)
    for i, ((name, args), snap) in enumerate(zip(ops, snaps)):
        getattr(ref, name)(*args)
        want = ref.snapshot()
        for f, a, b in zip(FIELDS, snap, want):
            if a != b:
                return (i, f, a, b)
    return None
