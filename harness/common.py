"""Shared machinery of the /verif checks: environment, Coq build + proof audit, in-Coq
evaluation of model cases (correspondence), evidence, known findings, verdict.

Every check is `./check <ID> [--tier quick|thorough]`; see DESIGN.md section 3.4.
"""
import concurrent.futures
import fcntl
import hashlib
import json
import os
import random
import re
import shutil
import subprocess
import sys
import time

VERIF = os.path.dirname(os.path.dirname(os.path.abspath(__file__)))
REPO = os.environ.get('VERIF_REPO', '/repo')
COQ = os.path.join(VERIF, 'coq')
WORK = os.path.join(VERIF, '.work')
REPLAY = os.path.join(VERIF, 'replay')
EVID = os.path.join(VERIF, 'evidence')
NPROC = min(16, os.cpu_count() or 4)

FORBIDDEN = re.compile(
    r'\b(Admitted|admit|Axiom|Axioms|Parameter|Parameters|Conjecture|Conjectures|Abort All|'
    r'Admit Obligations|bypass_check|native_compute)\b|Unset\s+Guard|Unset\s+Positivity|'
    r'Unset\s+Universe|type-in-type|impredicative-set')


def sh(cmd, timeout=600, cwd=None, env=None, input=None):
    """run a command, return (rc, stdout+stderr)"""
    try:
        p = subprocess.run(cmd, shell=isinstance(cmd, str), cwd=cwd, env=env, input=input,
                           stdout=subprocess.PIPE, stderr=subprocess.STDOUT, timeout=timeout,
                           text=True)
        return p.returncode, p.stdout
    except subprocess.TimeoutExpired as e:
        out = e.stdout if isinstance(e.stdout, str) else (e.stdout or b'').decode('utf8', 'replace')
        return 124, (out or '') + '\n[timeout after %ss]' % timeout


# ---------------------------------------------------------------------------------------------
# Python value  <->  Coq [V] literal
# ---------------------------------------------------------------------------------------------
def V(x):
    """encode a nested python structure (int / bool / None / bytes / str / list / tuple) as Coq V"""
    if x is None:
        return 'VL []'
    if x is True:
        return 'VI 1'
    if x is False:
        return 'VI 0'
    if isinstance(x, int):
        return 'VI (%d)' % x
    if isinstance(x, (bytes, bytearray)):
        return 'VL [' + ';'.join('VI %d' % b for b in x) + ']'
    if isinstance(x, str):
        return 'VL [' + ';'.join('VI %d' % ord(c) for c in x) + ']'
    if isinstance(x, (list, tuple)):
        return 'VL [' + ';'.join(V(e) for e in x) + ']'
    raise TypeError('cannot encode %r' % (x,))


def norm(x):
    """the python-side canonical form that V() encodes (used for printing / comparing)"""
    if x is None:
        return []
    if x is True:
        return 1
    if x is False:
        return 0
    if isinstance(x, int):
        return x
    if isinstance(x, (bytes, bytearray)):
        return list(x)
    if isinstance(x, str):
        return [ord(c) for c in x]
    return [norm(e) for e in x]


def opt(x):
    """python None / value  ->  option encoding used by vopt"""
    return [] if x is None else [x]


def ctext(t):
    """text (bytes or str) as a Coq [list N] literal"""
    if isinstance(t, (bytes, bytearray)):
        return '[' + ';'.join(str(b) for b in t) + ']%N'
    return '[' + ';'.join(str(ord(c)) for c in t) + ']%N'


def clist(items):
    return '[' + '; '.join(items) + ']'


def cnat(n):
    assert 0 <= n < 100000
    return '%d%%nat' % n


def cZ(n):
    return '(%d)%%Z' % n


def cN(n):
    assert n >= 0
    return '%d%%N' % n


def copt(x, f):
    return 'None' if x is None else '(Some %s)' % f(x)


def cbool(b):
    return 'true' if b else 'false'


_tok = re.compile(r'\s*(VI|VL|\(|\)|\[|\]|;|,|-?\d+)(?:%[A-Za-z]+)?')


def parse_report(txt):
    """parse Coq's printing of a [list (Z * V)] into [(id, nested python lists)]"""
    m = re.search(r'=\s*(\[.*\])\s*:\s*list \(Z \* V\)', txt, re.S)
    if not m:
        raise ValueError('cannot find report in coqc output:\n' + txt[-2000:])
    s = m.group(1)
    toks = [t for t in _tok.findall(s)]
    pos = [0]

    def peek():
        return toks[pos[0]] if pos[0] < len(toks) else None

    def eat(t=None):
        x = toks[pos[0]]
        if t is not None and x != t:
            raise ValueError('expected %s got %s at %d' % (t, x, pos[0]))
        pos[0] += 1
        return x

    def pint():
        if peek() == '(':
            eat('(')
            v = pint()
            eat(')')
            return v
        return int(eat())

    def pv():
        if peek() == '(':
            eat('(')
            v = pv()
            eat(')')
            return v
        k = eat()
        if k == 'VI':
            return pint()
        if k == 'VL':
            return plist(pv)
        raise ValueError('bad token ' + k)

    def plist(elem):
        eat('[')
        out = []
        while peek() != ']':
            out.append(elem())
            if peek() == ';':
                eat(';')
        eat(']')
        return out

    def ppair():
        eat('(')
        i = pint()
        eat(',')
        v = pv()
        eat(')')
        return (i, v)

    return plist(ppair)


# ---------------------------------------------------------------------------------------------
class Ctx:
    def __init__(self, pid, tier, seed):
        self.pid = pid
        self.tier = tier
        self.seed = seed
        self.rng = random.Random(seed)
        self.t0 = time.time()
        self.work = os.path.join(WORK, '%s.%d' % (pid, os.getpid()))
        os.makedirs(self.work, exist_ok=True)
        os.makedirs(REPLAY, exist_ok=True)
        os.makedirs(EVID, exist_ok=True)
        self.proof_broken = []      # [(what, detail)]
        self.corr_broken = []       # [(job, detail dict)]
        self.hits = []              # concrete failing inputs on the real code: [(key, what, data)]
        self.known_printed = []
        self.obligations = 0
        self.discharged = 0
        self.axioms = {}
        self.jobs = {}              # job -> stats
        self.samples = []
        self.evaluations = 0
        self.distinct = set()
        self.gen_hashes = {}
        self.assumptions = []
        self.trusted = []
        self.notes = []
        self.oracle_stats = {}
        self.transients = []
        self.checker_cmd = ''
        kf = json.load(open(os.path.join(VERIF, 'known_findings.json')))
        self.known = [k for k in kf.get('known', []) if k['property'] == pid]
        self.fixed = [k for k in kf.get('fixed', []) if k['property'] == pid]

    # -- logging ---------------------------------------------------------------------------
    def log(self, *a):
        print('[%s %6.1fs]' % (self.pid, time.time() - self.t0), *a, flush=True)

    # -- K-gen -----------------------------------------------------------------------------
    def regenerate(self, relpath, producer):
        """(re)write coq/<relpath> from the current /repo via producer(); fail closed"""
        path = os.path.join(COQ, relpath)
        try:
            text = producer()
        except Exception as e:                                   # translator refused
            self.log('K-gen FAILED for', relpath, ':', repr(e))
            self.proof_broken.append(('translator:' + relpath, repr(e)))
            return False
        old = open(path).read() if os.path.exists(path) else None
        if old != text:
            with self.coq_lock():
                os.makedirs(os.path.dirname(path), exist_ok=True)
                tmp = path + '.tmp%d' % os.getpid()
                open(tmp, 'w').write(text)
                os.replace(tmp, path)
            self.log('regenerated', relpath, '(changed)' if old is not None else '(new)')
        self.gen_hashes[relpath] = hashlib.sha256(text.encode()).hexdigest()[:16]
        return True

    # -- Coq build ---------------------------------------------------------------------------
    def coq_lock(self):
        os.makedirs(WORK, exist_ok=True)

        class L:
            def __enter__(s):
                s.f = open(os.path.join(WORK, 'coq.lock'), 'w')
                fcntl.flock(s.f, fcntl.LOCK_EX)

            def __exit__(s, *a):
                fcntl.flock(s.f, fcntl.LOCK_UN)
                s.f.close()
        return L()

    def build(self, props_file, extra=()):
        """make the property file's dependencies, then re-check the property file itself and audit
        its Print Assumptions output.  Returns True when every obligation is discharged."""
        vo = props_file[:-2] + '.vo'
        with self.coq_lock():
            refresh_makefile()
            # always re-check the property file itself
            for ext in ('.vo', '.glob', '.vok', '.vos'):
                try:
                    os.remove(os.path.join(COQ, props_file[:-2] + ext))
                except OSError:
                    pass
            rc, out = sh('timeout 1500 make -j%d %s 2>&1' % (NPROC, vo), cwd=COQ, timeout=1600)
            if extra:        # modules the correspondence jobs import (built even when a proof file broke)
                rc2, out2 = sh('timeout 1500 make -j%d %s 2>&1' % (NPROC, ' '.join(e[:-2] + '.vo' for e in extra)), cwd=COQ, timeout=1600)
                if rc2 != 0:
                    self.log('building model runners failed:', out2[-800:])
        self.checker_cmd = 'cd /verif/coq && make %s   (coqc 8.16.1, full .vo build; output audited: Print Assumptions)' % vo
        src = open(os.path.join(COQ, props_file)).read()
        thms = re.findall(r'^\s*(?:Theorem|Corollary)\s+(\w+)', src, re.M)
        self.obligations = len(thms)
        if rc != 0:
            self.discharged = 0
            # find which file failed
            m = re.search(r'File "\./([^"]+)", line (\d+)', out)
            where = '%s:%s' % (m.group(1), m.group(2)) if m else '?'
            self.log('Coq build FAILED at', where)
            self.log(out[-1500:])
            self.proof_broken.append(('coq-build:' + where, out[-3000:]))
            return False
        # audit
        blocks = re.split(r'^(?=Closed under the global context|Axioms:)', out, flags=re.M)
        closed = len(re.findall(r'^Closed under the global context', out, re.M))
        ax_blocks = re.findall(r'^Axioms:\n((?:.+\n?)+?)(?=\n|$|Closed|Axioms:)', out, re.M)
        n_pa = len(re.findall(r'^\s*Print Assumptions\s+(\w+)', src, re.M))
        pa_names = re.findall(r'^\s*Print Assumptions\s+(\w+)', src, re.M)
        ok = True
        if sorted(set(pa_names)) != sorted(set(thms)):
            self.proof_broken.append(('audit', 'Print Assumptions does not cover every theorem: %s vs %s'
                                      % (pa_names, thms)))
            ok = False
        axioms = []
        for b in ax_blocks:
            for line in b.splitlines():
                m = re.match(r'^(\S+)\s*:', line)
                if m:
                    axioms.append(m.group(1))
        self.axioms = {'closed_under_global_context': closed, 'axioms_listed': sorted(set(axioms))}
        allowed = set()
        bad = [a for a in axioms if a not in allowed]
        if closed + len(ax_blocks) < n_pa:
            self.proof_broken.append(('audit', 'fewer Print Assumptions results (%d) than requests (%d)'
                                      % (closed + len(ax_blocks), n_pa)))
            ok = False
        if bad:
            self.proof_broken.append(('audit', 'theorems depend on axioms: %s' % bad))
            ok = False
        # forbidden commands anywhere in the development
        hits = forbidden_scan()
        if hits:
            self.proof_broken.append(('audit', 'forbidden commands: %s' % hits[:5]))
            ok = False
        self.discharged = len(thms) if ok else 0
        self.log('Coq: %d theorems in %s, %d closed, axioms=%s' % (len(thms), props_file, closed, sorted(set(axioms))))
        return ok

    # -- K-corr ------------------------------------------------------------------------------
    def run_cases(self, job, imports, run_fn, in_type, cases, shard=400, describe=None, timeout=900):
        """cases: list of (coq_input_term, python_expected, python_case_description).
        Evaluates [run_fn input] inside Coq for every case and compares with the expected V.
        Returns list of (case_index, model_output) for mismatches."""
        if not cases:
            return []
        d = os.path.join(self.work, job)
        os.makedirs(d, exist_ok=True)
        files = []
        for k in range(0, len(cases), shard):
            part = cases[k:k + shard]
            name = 'Cases_%s_%d' % (re.sub(r'\W', '_', job), k // shard)
            body = ['From Coq Require Import ZArith NArith List Bool String.', 'Import ListNotations.',
                    'From PV Require Import Base.V.']
            body += ['From PV Require Import %s.' % i for i in imports]
            body += ['Local Open Scope Z_scope.', 'Set Printing Depth 100000.', 'Set Printing Width 1000000.',
                     'Definition cases : list (Z * (%s) * V) := [' % in_type]
            body.append(';\n'.join('(%d, %s, %s)' % (k + j, c[0], V(c[1])) for j, c in enumerate(part)))
            body += ['].', 'Eval vm_compute in (report (%s) cases).' % run_fn]
            path = os.path.join(d, name + '.v')
            open(path, 'w').write('\n'.join(body) + '\n')
            files.append(path)

        def one(path):
            return path, sh('ulimit -s unlimited 2>/dev/null; timeout %d coqc -Q %s PV %s 2>&1' % (timeout, COQ, path),
                            cwd=d, timeout=timeout + 30)

        mism = []
        errors = []
        with concurrent.futures.ThreadPoolExecutor(NPROC) as ex:
            for path, (rc, out) in ex.map(one, files):
                if rc != 0:
                    errors.append((path, out[-1500:]))
                    continue
                try:
                    mism += parse_report(out)
                except ValueError as e:
                    errors.append((path, str(e)))
        st = self.jobs.setdefault(job, {'cases': 0, 'mismatches': 0, 'errors': 0})
        st['cases'] += len(cases)
        st['mismatches'] += len(mism)
        st['errors'] += len(errors)
        self.evaluations += len(cases)
        for c in cases:
            self.distinct.add(hashlib.md5(c[0].encode()).digest())
        if errors:
            self.log('job', job, ': model evaluation failed:', errors[0][1][-800:])
            self.corr_broken.append((job, {'error': 'model evaluation failed', 'detail': errors[0][1][-1500:]}))
        for (i, got) in mism[:20]:
            c = cases[i]
            self.corr_broken.append((job, {'case': c[2] if len(c) > 2 else c[0], 'model_input': c[0],
                                           'implementation': norm(c[1]), 'model': got}))
        if mism:
            self.log('job', job, ': %d/%d cases DISAGREE; first: %s' % (len(mism), len(cases),
                     json.dumps(self.corr_broken[-min(len(mism), 20)][1], default=str)[:1500]))
        elif not errors:
            self.log('job', job, ': %d cases agree' % len(cases))
        if cases and len(self.samples) < 12:
            c = cases[self.rng.randrange(len(cases))]
            self.samples.append({'job': job, 'case': c[2] if len(c) > 2 else c[0], 'observed': norm(c[1])})
        return mism

    # -- direct oracle hits, known findings -------------------------------------------------------
    def hit(self, key, what, data):
        """a concrete failing input on the real code. key identifies the defect class for
        matching against known_findings.json (exact string match against entry['key'])."""
        self.hits.append((key, what, data))
        if len(self.hits) <= 5:
            # the log of a run must say what failed even when the replay file is not at hand
            self.log('%s [%s]: %s' % ('known finding seen' if any(k['key'] == key for k in self.known) else 'failing input', key, ' '.join(str(what).split())[:700]))

    def transient(self, key, what, data, tries):
        """a mismatch on a real child that did not fail again when the very same session was replayed [tries] times: recorded, not reported"""
        self.transients.append({'key': key, 'what': str(what)[:1500], 'data': data, 'replays_without_failure': tries})
        self.log('transient [%s], did not fail again in %d replay(s) of the same input, not reported: %s' % (key, tries, ' '.join(str(what).split())[:500]))

    def finish(self, level='proof', rule='', extra=None):
        new_hits = []
        known_keys = {k['key']: k for k in self.known}
        seen_known = set()
        for key, what, data in self.hits:
            if key in known_keys:
                if key not in seen_known:
                    seen_known.add(key)
                    print('KNOWN-FINDING: property=%s %s' % (self.pid, known_keys[key]['what']), flush=True)
            else:
                new_hits.append((key, what, data))
        violations = 0
        lines = []
        if new_hits:
            key, what, data = new_hits[0]
            path = os.path.join(REPLAY, '%s-%s.json' % (self.pid, hashlib.md5(json.dumps(data, default=str, sort_keys=True).encode()).hexdigest()[:10]))
            json.dump({'property': self.pid, 'kind': 'failing-input', 'what': what, 'key': key, 'replay': data,
                       'other_hits': [(k, w) for k, w, _ in new_hits[1:10]],
                       'broken_proofs': self.proof_broken[:3], 'broken_correspondence': self.corr_broken[:3]},
                      open(path, 'w'), indent=1, default=str)
            lines.append('VIOLATION property=%s replay=%s' % (self.pid, path))
            violations = len(new_hits)
        elif self.proof_broken or self.corr_broken:
            data = {'property': self.pid, 'kind': 'proof-or-correspondence-broken',
                    'broken_proofs': self.proof_broken[:5], 'broken_correspondence': self.corr_broken[:5],
                    'note': 'no concrete failing input was found on the implementation within this tier\'s search budget; '
                            'the property is no longer shown to hold'}
            path = os.path.join(REPLAY, '%s-%s.json' % (self.pid, hashlib.md5(json.dumps(data, default=str, sort_keys=True).encode()).hexdigest()[:10]))
            json.dump(data, open(path, 'w'), indent=1, default=str)
            lines.append('VIOLATION property=%s replay=%s no-failing-input-found' % (self.pid, path))
            violations = 1
        cov = {
            'obligations': self.obligations, 'discharged': self.discharged,
            'checker_cmd': self.checker_cmd or 'n/a',
            'trusted_base': self.trusted,
            'axioms': self.axioms,
            'model_regenerated': self.gen_hashes,
            'evaluations': self.evaluations, 'distinct_nontrivial': len(self.distinct),
            'rule': rule, 'samples': self.samples[:12] or [{'note': 'no correspondence cases in this run'}],
            'correspondence_jobs': self.jobs, 'direct_oracle': dict(self.oracle_stats, unconfirmed_transients=self.transients) if self.transients else self.oracle_stats,
            'known_findings_replayed': sorted(seen_known),
            'proof_broken': [p[0] for p in self.proof_broken], 'correspondence_broken': len(self.corr_broken),
        }
        if extra:
            cov.update(extra)
        if not cov['discharged']:
            # schema: a proof-level 'discharged' must be >= 1; a run whose proofs broke reports the
            # exploration-style counts instead and says so
            cov['discharged_count'] = cov.pop('discharged')
            cov['evaluations'] = max(cov['evaluations'], 1)
        ev = {'property_id': self.pid, 'tier': self.tier, 'seed': self.seed, 'level': level, 'coverage': cov,
              'assumptions': self.assumptions, 'wall_s': round(time.time() - self.t0, 2), 'violations': violations}
        tmp = os.path.join(EVID, '.%s.json.tmp%d' % (self.pid, os.getpid()))
        json.dump(ev, open(tmp, 'w'), indent=1, default=str)
        os.replace(tmp, os.path.join(EVID, self.pid + '.json'))
        shutil.rmtree(self.work, ignore_errors=True)
        sys.stderr.flush()
        sys.stdout.flush()
        for l in lines:
            # own line even if something else left a partial line on a shared terminal / pipe
            sys.stdout.write('\n' + l + '\n')
            sys.stdout.flush()
        self.log('done: %s, evidence written' % ('VIOLATION' if violations else 'ok'))
        return 1 if violations else 0


def refresh_makefile():
    """_CoqProject lists every .v under coq/ (sorted); Makefile regenerated when the list changes"""
    files = []
    for root, dirs, fs in os.walk(COQ):
        dirs.sort()
        for f in sorted(fs):
            if f.endswith('.v'):
                files.append(os.path.relpath(os.path.join(root, f), COQ))
    head = ['-Q . PV',
            '-arg -w -arg -notation-overridden,-deprecated-hint-without-locality,-deprecated-instance-without-locality']
    text = '\n'.join(head + sorted(files)) + '\n'
    p = os.path.join(COQ, '_CoqProject')
    if not os.path.exists(p) or open(p).read() != text or not os.path.exists(os.path.join(COQ, 'Makefile')):
        open(p, 'w').write(text)
        rc, out = sh('coq_makefile -f _CoqProject -o Makefile', cwd=COQ)
        if rc != 0:
            raise RuntimeError('coq_makefile failed: ' + out)


def forbidden_scan():
    hits = []
    for root, dirs, fs in os.walk(COQ):
        for f in fs:
            if f.endswith('.v'):
                p = os.path.join(root, f)
                txt = open(p).read()
                # strip comments (non-nested approximation is enough: we forbid the words in code)
                code = re.sub(r'\(\*.*?\*\)', ' ', txt, flags=re.S)
                for m in FORBIDDEN.finditer(code):
                    hits.append('%s: %s' % (os.path.relpath(p, COQ), m.group(0)))
    return hits


def preflight():
    """make sure the implementation under test is /repo's working tree"""
    sys.path.insert(0, REPO)
    os.environ['PYTHONPATH'] = REPO
    import warnings
    warnings.simplefilter('ignore')
    import pexpect
    assert os.path.realpath(pexpect.__file__).startswith(os.path.realpath(REPO) + os.sep), pexpect.__file__
    return pexpect
