"""Lifecycle harness (C09, C10): the REAL pexpect.spawn.{isalive,wait,kill,terminate,close} on top of the REAL
ptyprocess.PtyProcess.{isalive,wait,kill,terminate,close}, with os.waitpid / os.kill / time.sleep answered by a Python copy
of the child-process model of coq/Life/Model.v."""
import errno
import os
import signal

from .common import cZ, cbool, clist

PID = 424242


class BlocksForever(Exception):
    pass


class Child:
    def __init__(self, ign_hup, ign_int, stopped):
        self.alive, self.reaped, self.fate = True, False, 0
        self.ign_hup, self.ign_int, self.stopped = ign_hup, ign_int, stopped
        self.pend_hup = self.pend_int = False

    def die(self, st):
        self.alive, self.fate, self.stopped, self.pend_hup, self.pend_int = False, st, False, False, False

    def deliver(self, sig):
        if not self.alive:
            return
        if sig == 9:
            self.die(9)
        elif sig == 18:
            self.stopped = False
            if self.pend_hup and not self.ign_hup:
                self.die(1)
            elif self.pend_int and not self.ign_int:
                self.die(2)
        elif sig == 1:
            if self.stopped:
                self.pend_hup = True
            elif not self.ign_hup:
                self.die(1)
        elif sig == 2:
            if self.stopped:
                self.pend_int = True
            elif not self.ign_int:
                self.die(2)
        else:
            self.die(sig)

    def env(self, e):
        if e[0] == 'reap':
            # somebody else collects the wait status (the kernel when SIGCHLD is ignored, another waitpid in the application)
            if not self.alive:
                self.reaped = True
            return
        if not self.alive:
            return
        self.die(e[1] * 256 if e[0] == 'exit' else e[1])


class FakeFile:
    def __init__(self, world):
        self.world = world
        self.closed = False

    def close(self):
        if not self.closed:
            self.closed = True
            self.world.fd_closes += 1
            self.world.child.deliver(1)          # hang-up of the terminal

    def flush(self):
        pass


class World:
    def __init__(self, pexpect, ign_hup, ign_int, stopped):
        import ptyprocess
        self.child = Child(ign_hup, ign_int, stopped)
        self.kills = []
        self.fd_closes = 0
        pt = ptyprocess.PtyProcess.__new__(ptyprocess.PtyProcess)
        pt.pid, pt.fd = PID, 987
        pt.fileobj = FakeFile(self)
        pt.terminated = pt.closed = False
        pt.exitstatus = pt.signalstatus = pt.status = None
        pt.flag_eof = False
        pt.delayafterclose = pt.delayafterterminate = 0
        self.pt = pt
        sp = pexpect.spawn(None)
        sp.ptyproc = pt
        sp.pid, sp.child_fd = PID, 987
        sp.terminated = sp.closed = False
        sp.delayafterterminate = sp.delayafterclose = 0
        self.sp = sp

    # fake OS
    def waitpid(self, pid, options):
        assert pid == PID
        c = self.child
        if c.reaped:
            raise OSError(errno.ECHILD, 'No child processes')
        if c.alive:
            if options & os.WNOHANG:
                return (0, 0)
            raise BlocksForever()
        c.reaped = True
        return (PID, c.fate)

    def kill(self, pid, sig):
        assert pid == PID
        self.kills.append((int(sig), self.child.alive))
        if self.child.reaped:
            raise OSError(errno.ESRCH, 'No such process')
        self.child.deliver(int(sig))

    def snapshot(self):
        c, p, s = self.child, self.pt, self.sp
        o = lambda x: [] if x is None else [int(x)]
        return [[c.alive, c.reaped, c.stopped],
                [p.terminated, o(p.status), o(p.exitstatus), o(p.signalstatus), p.closed, not p.fileobj.closed],
                [s.terminated, o(s.status), o(s.exitstatus), o(s.signalstatus), s.closed, s.child_fd != -1],
                [[k[0], k[1]] for k in self.kills], self.fd_closes]


def run_ops(pexpect, ign_hup, ign_int, stopped, ops):
    import ptyprocess.ptyprocess as pp
    import pexpect.pty_spawn as ps
    w = World(pexpect, ign_hup, ign_int, stopped)
    saved = (os.waitpid, os.kill, pp.time.sleep)
    os.waitpid, os.kill = w.waitpid, w.kill
    real_sleep = pp.time.sleep
    pp.time.sleep = lambda d: None
    out = []
    try:
        for o in ops:
            try:
                if o[0] == 'isalive':
                    r = [0, bool(w.sp.isalive())]
                elif o[0] == 'wait':
                    v = w.sp.wait()
                    r = [1, [] if v is None else [int(v)]]
                elif o[0] == 'kill':
                    w.sp.kill(o[1])
                    r = [2]
                elif o[0] == 'terminate':
                    r = [0, bool(w.sp.terminate(force=o[1]))]
                elif o[0] == 'close':
                    w.sp.close(force=o[1])
                    r = [2]
                elif o[0] == 'drop':
                    # the last reference goes away: pexpect.spawn has no finaliser, PtyProcess has (its close(), errors swallowed)
                    w.pt.__del__()
                    r = [2]
                elif o[0] == 'io':
                    # any I/O call on an object whose close() has been called: it must fail with an error (not return, not EOF/TIMEOUT)
                    fn = {0: lambda: w.sp.read_nonblocking(1, 0), 1: lambda: w.sp.send(b'x'), 2: lambda: w.sp.expect_exact([b'x', pexpect.EOF, pexpect.TIMEOUT], timeout=0),
                          3: lambda: w.sp.sendline(b''), 4: lambda: w.sp.readline()}[o[1]]
                    try:
                        v = fn()
                        r = [9, 'returned %r' % (v,)]
                    except (pexpect.EOF, pexpect.TIMEOUT) as e:
                        r = [9, type(e).__name__]
                    except (ValueError, OSError, pexpect.ExceptionPexpect):
                        r = [3, 3]
                else:
                    w.child.env(o[1])
                    r = [2]
            except BlocksForever:
                r = [4]
            except pexpect.ExceptionPexpect as e:
                msg = str(e)
                r = [3, 2 if 'Could not terminate' in msg else 1]
            out.append([r, w.snapshot()])
    finally:
        os.waitpid, os.kill = saved[0], saved[1]
        pp.time.sleep = real_sleep
        # the objects must not act on anything when they are garbage collected later
        w.sp.closed = True
        w.pt.closed = True
    return out, w


def gen_ops(rng, n, foreign_reaper=False):
    ops = []
    for _ in range(n):
        x = rng.random()
        if x < 0.22:
            ops.append(('isalive',))
        elif x < 0.30:
            ops.append(('wait',))
        elif x < 0.45:
            ops.append(('kill', rng.choice([1, 2, 9, 15, 18, 10])))
        elif x < 0.60:
            ops.append(('terminate', rng.random() < 0.5))
        elif x < 0.72:
            ops.append(('close', rng.random() < 0.6))
        elif x < 0.78:
            # I/O on the object: only after a close() (what it does on an open object belongs to C06-C08)
            if any(o[0] == 'close' for o in ops):
                ops.append(('io', rng.randint(0, 4)))
            else:
                ops.append(('isalive',))
        elif x < 0.9:
            ops.append(('env', ('exit', rng.choice([0, 1, 2, 5, 127, 255]))))
        else:
            ops.append(('env', ('sig', rng.choice([1, 2, 9, 11, 15, 35, 64]))))
    if foreign_reaper:
        # a world where somebody else may reap the child: right after some of its deaths, or at any other moment
        out = []
        for o in ops:
            out.append(o)
            if (o[0] == 'env' and rng.random() < 0.6) or rng.random() < 0.1:
                out.append(('env', ('reap',)))
        ops = out
    if rng.random() < 0.3:
        ops.append(('drop',))          # the end of the object's life
    return ops


def coq_ops(ops):
    out = []
    for o in ops:
        if o[0] == 'isalive':
            out.append('OIsalive')
        elif o[0] == 'wait':
            out.append('OWait')
        elif o[0] == 'kill':
            out.append('(OKill %s)' % cZ(o[1]))
        elif o[0] == 'terminate':
            out.append('(OTerminate %s)' % cbool(o[1]))
        elif o[0] == 'close':
            out.append('(OClose %s)' % cbool(o[1]))
        elif o[0] == 'io':
            out.append('OIo')
        elif o[0] == 'drop':
            out.append('ODrop')
        else:
            out.append('(OEnv EReapedElsewhere)' if o[1][0] == 'reap' else '(OEnv (%s %s))' % ('EExit' if o[1][0] == 'exit' else 'ESignalled', cZ(o[1][1])))
    return clist(out)
