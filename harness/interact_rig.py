"""Rig for spawn.interact(): the 'user' is the master side of a private pty whose slave is given to the spawn object
as its STDIN, the 'screen' is a pipe given as STDOUT; the child is a real pty child that reports, in hex, every byte it
reads.  interact() runs in a thread of this process; the rig feeds keystrokes and collects what reached screen and child."""
import os
import pty
import select
import sys
import termios
import threading
import time

CHILD = r'''
import os, sys, termios, tty
tty.setraw(0)
os.write(1, b"<READY>")
while True:
    d = os.read(0, 4096)
    if not d:
        break
    os.write(1, b"[" + d.hex().encode() + b"]")
    if b"\x04" in d:
        break
os.write(1, b"<BYE>")
'''


def read_all(fd, quiet=0.3, limit=5.0):
    """read until nothing arrives for `quiet` seconds"""
    out = b''
    t0 = time.time()
    while time.time() - t0 < limit:
        r, _, _ = select.select([fd], [], [], quiet)
        if not r:
            break
        try:
            d = os.read(fd, 65536)
        except OSError:
            break
        if not d:
            break
        out += d
    return out


class Rig:
    def __init__(self, pexpect, encoding=None, logfile=None, logfile_read=None, logfile_send=None, use_poll=False, pending=None):
        self.pexpect = pexpect
        self.user_master, self.user_slave = pty.openpty()          # keyboard
        self.screen_r, self.screen_w = os.pipe()                   # display
        self.child = pexpect.spawn(sys.executable, ['-c', CHILD], encoding=encoding, timeout=10, use_poll=use_poll)
        self.child.expect('<READY>')
        self.child.logfile = logfile
        self.child.logfile_read = logfile_read
        self.child.logfile_send = logfile_send
        self.child.STDIN_FILENO = self.user_slave
        self.child.STDOUT_FILENO = self.screen_w
        self.mode_before = termios.tcgetattr(self.user_slave)
        self.error = None
        self.returned = threading.Event()
        if pending is not None:
            self.child.buffer = pending

    def start(self, escape_character=chr(29), input_filter=None, output_filter=None):
        # interact() writes the pending output with write_to_stdout (sys.stdout): route it to the screen pipe as well
        child = self.child

        def to_screen(b):
            if isinstance(b, str):
                b = b.encode(child.encoding or 'latin-1')
            return os.write(self.screen_w, b)
        child.write_to_stdout = to_screen

        class _Out:
            def flush(self_):
                pass
        child.stdout = _Out()

        def run():
            try:
                child.interact(escape_character=escape_character, input_filter=input_filter, output_filter=output_filter)
            except BaseException as e:
                self.error = e
            self.returned.set()
        self.thread = threading.Thread(target=run, daemon=True)
        self.thread.start()
        # wait until interact() has put the keyboard in raw mode
        t0 = time.time()
        while time.time() - t0 < 5:
            if not (termios.tcgetattr(self.user_slave)[3] & termios.ICANON):
                break
            time.sleep(0.01)

    def type(self, data):
        os.write(self.user_master, data)

    def wait_return(self, timeout=5.0):
        return self.returned.wait(timeout)

    def finish(self):
        """collect what reached the screen; make sure everything is torn down"""
        screen = read_all(self.screen_r)
        mode_after = termios.tcgetattr(self.user_slave)
        # what the child reported after interact() had already returned
        self.tail = b''
        if self.returned.is_set() and self.child.child_fd >= 0:
            self.tail = read_all(self.child.child_fd)
        if not self.returned.is_set():
            # unblock interact(): kill the child
            try:
                self.child.terminate(force=True)
            except Exception:
                pass
            self.returned.wait(3)
        try:
            self.child.close(force=True)
        except Exception:
            pass
        for fd in (self.user_master, self.user_slave, self.screen_r, self.screen_w):
            try:
                os.close(fd)
            except OSError:
                pass
        return screen, mode_after


def child_received(screen):
    """bytes the child reported to have read, from the [hex] groups on the screen"""
    import re
    return b''.join(bytes.fromhex(m.decode()) for m in re.findall(rb'\[([0-9a-f]*)\]', screen))
