"""entry point:  python -m harness.check <ID> [--tier quick|thorough] [--replay FILE]"""
import argparse
import importlib
import os
import signal
import sys
import traceback

from . import common


def normal_signals():
    """the children the checks start must see the usual signal dispositions whatever launched the check (nohup leaves SIGHUP
    ignored, a background job of a shell without job control leaves SIGINT / SIGQUIT ignored - and ignored signals are inherited
    across exec): the real-child oracles rely on SIGINT interrupting a REPL and on SIGHUP being delivered unless asked otherwise"""
    signal.signal(signal.SIGINT, signal.default_int_handler)
    for s in (signal.SIGHUP, signal.SIGQUIT, signal.SIGTERM, signal.SIGCHLD):
        signal.signal(s, signal.SIG_DFL)
    try:
        signal.pthread_sigmask(signal.SIG_SETMASK, set())
    except (AttributeError, OSError):
        pass


def main():
    normal_signals()
    ap = argparse.ArgumentParser()
    ap.add_argument('pid')
    ap.add_argument('--tier', default=os.environ.get('VERIF_TIER', 'quick'), choices=['quick', 'thorough'])
    ap.add_argument('--replay', default=None)
    a = ap.parse_args()
    seed = int(os.environ.get('VERIF_SEED', '20260930'))
    common.preflight()
    mod = importlib.import_module('harness.props.' + a.pid)
    ctx = common.Ctx(a.pid, a.tier, seed)
    if a.replay:
        return mod.replay(ctx, a.replay)
    # a check must not hang with the code under test: an overall time budget, after which the run is reported as broken
    budget = int(os.environ.get('VERIF_BUDGET_S', '5400' if a.tier == 'thorough' else '900'))

    class OverBudget(BaseException):
        pass

    def on_alarm(signum, frame):
        raise OverBudget()
    signal.signal(signal.SIGALRM, on_alarm)
    signal.alarm(budget)
    try:
        mod.run(ctx)
    except OverBudget:
        ctx.corr_broken.append(('time-budget', {'error': 'the check did not finish within %d s: the code under test (or the machinery) loops or blocks' % budget}))
    except Exception:
        # a crash of the machinery is reported as a broken check, never as a pass
        traceback.print_exc()
        ctx.corr_broken.append(('harness-crash', {'traceback': traceback.format_exc()[-3000:]}))
    finally:
        signal.alarm(0)
    return ctx.finish(**getattr(mod, 'FINISH', {}))


if __name__ == '__main__':
    sys.exit(main())
