"""entry point:  python -m harness.check <ID> [--tier quick|thorough] [--replay FILE]"""
import argparse
import importlib
import json
import os
import shutil
import signal
import subprocess
import sys
import tempfile
import traceback

from . import common


def normal_signals():
    """the children the checks start must see the usual signal dispositions whatever launched the check (nohup leaves SIGHUP
    ignored, a background job of a shell without job control leaves SIGINT / SIGQUIT ignored - and ignored signals are inherited
    across exec): the real-child oracles rely on SIGINT interrupting a REPL and on SIGHUP being delivered unless asked otherwise"""
    signal.signal(signal.SIGINT, signal.default_int_handler)
    for s in (signal.SIGHUP, signal.SIGQUIT, signal.SIGTERM, signal.SIGCHLD):
        signal.signal(s, signal.SIG_DFL)
    try:
        signal.pthread_sigmask(signal.SIG_SETMASK, set())
    except (AttributeError, OSError):
        pass


def main():
    normal_signals()
    ap = argparse.ArgumentParser()
    ap.add_argument('pid')
    ap.add_argument('--tier', default=os.environ.get('VERIF_TIER', 'quick'), choices=['quick', 'thorough'])
    ap.add_argument('--replay', default=None)
    a = ap.parse_args()
    seed = int(os.environ.get('VERIF_SEED', '20260930'))
    common.preflight()
    mod = importlib.import_module('harness.props.' + a.pid)
    ctx = common.Ctx(a.pid, a.tier, seed)
    if a.replay:
        return mod.replay(ctx, a.replay)
    # a check must not hang with the code under test: an overall time budget, after which the run is reported as broken
    budget = int(os.environ.get('VERIF_BUDGET_S', '5400' if a.tier == 'thorough' else '900'))

    class OverBudget(BaseException):
        pass

    def on_alarm(signum, frame):
        raise OverBudget()
    signal.signal(signal.SIGALRM, on_alarm)
    signal.alarm(budget)
    try:
        mod.run(ctx)
    except OverBudget:
        ctx.corr_broken.append(('time-budget', {'error': 'the check did not finish within %d s: the code under test (or the machinery) loops or blocks' % budget}))
    except Exception:
        # a crash of the machinery is reported as a broken check, never as a pass
        traceback.print_exc()
        ctx.corr_broken.append(('harness-crash', {'traceback': traceback.format_exc()[-3000:]}))
    finally:
        signal.alarm(0)
    child_out = os.environ.get('VERIF_CONFIRM_CHILD')
    if child_out:
        # a confirmation run (see confirm_hits): says which classes of failing input it met and writes nothing else
        json.dump({'hit_keys': sorted({k for k, _, _ in ctx.hits}), 'broken': bool(ctx.proof_broken or ctx.corr_broken)}, open(child_out, 'w'))
        shutil.rmtree(ctx.work, ignore_errors=True)
        return 0
    confirm_hits(ctx, a.pid, a.tier, seed, budget)
    return ctx.finish(**getattr(mod, 'FINISH', {}))


def confirm_hits(ctx, pid, tier, seed, budget, runs=2):
    """What is reported as a failing input must fail again.  The model cases and the simulated children are deterministic in
    the seed; the oracles on REAL children (ptys, bash, python, sockets, the kernel's scheduling and the host's clock) are not,
    and a one-off there - a REPL that loses an interrupt, a host that stalls longer than a wait the code fixes at one second - is
    the environment's doing, not a failing input of pexpect: its replay would show nothing.  So before a failing input is
    reported, the whole check is run again from scratch (fresh process, same seed, same tier, up to [runs] times): a class of
    failing input (the hit's key) is reported if it shows up again in any of them - every deterministic failure does, at the
    first - and is otherwise recorded in the evidence as an unconfirmed transient (coverage.direct_oracle) and logged.
    Broken proofs or correspondence are never filtered; a confirmation run that crashes or overruns confirms everything."""
    known = {k['key'] for k in ctx.known}
    # (a hit that its own oracle has already replayed on fresh children - C16's real-child sessions - carries 'replays_failed')
    new = [h for h in ctx.hits if h[0] not in known and not (isinstance(h[2], dict) and h[2].get('replays_failed'))]
    if not new:
        return
    want = {k for k, _, _ in new}
    seen = set()
    for attempt in range(runs):
        fd, out = tempfile.mkstemp(prefix='confirm.', suffix='.json', dir=common.WORK)
        os.close(fd)
        os.unlink(out)
        env = dict(os.environ, VERIF_CONFIRM_CHILD=out, VERIF_SEED=str(seed), VERIF_BUDGET_S=str(budget))
        ctx.log('confirming %d failing-input class(es) by running the check again (%d of at most %d)' % (len(want - seen), attempt + 1, runs))
        try:
            subprocess.run([sys.executable, '-m', 'harness.check', pid, '--tier', tier], env=env, cwd=common.VERIF,
                           stdout=subprocess.DEVNULL, stderr=subprocess.DEVNULL, timeout=budget + 120)
            res = json.load(open(out))
            seen |= set(res['hit_keys'])
            if res.get('broken'):
                seen |= want
        except Exception as e:
            ctx.log('confirmation run failed (%r): the failing inputs are reported as they are' % (e,))
            seen |= want
        finally:
            if os.path.exists(out):
                os.unlink(out)
        if want <= seen:
            break
    for h in list(ctx.hits):
        if h[0] in want and h[0] not in seen:
            ctx.hits.remove(h)
            ctx.transient(h[0], h[1], h[2], attempt + 1)


if __name__ == '__main__':
    sys.exit(main())
