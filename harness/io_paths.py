"""Shared harness of C07 (decode), C08 (send), C11 (log): the real read paths and send families of the four transports
run on fake OS endpoints that record what reaches the wire and feed chosen raw chunks; logs are recording objects."""
import codecs
import os
import queue

from . import transport_sim as T
from .common import ctext, clist, cbool, cnat, cN


class RecLog:
    """a log file object recording (write|flush, value)"""

    def __init__(self, name, sink):
        self.name, self.sink = name, sink

    def write(self, s):
        self.sink.append(('w', self.name, s))

    def flush(self):
        self.sink.append(('f', self.name))

    def __len__(self):
        # a log object is anything with write() and flush(): it may well be an (empty, hence falsy) container
        return 0


class WireFD:
    """context manager: os.write on a chosen fd is recorded instead of executed"""

    def __init__(self, fd, wire):
        self.fd, self.wire = fd, wire

    def __enter__(self):
        self.real = os.write
        fd, wire, real = self.fd, self.wire, self.real

        def w(f, b):
            if f == fd:
                wire.append(bytes(b))
                return len(b)
            return real(f, b)
        os.write = w
        return self

    def __exit__(self, *a):
        os.write = self.real


class FakePtyProc(T.FakePty):
    def __init__(self, sim, wire):
        T.FakePty.__init__(self, sim)
        self.wire = wire

    def _ctl(self, b):
        self.wire.append(b)
        return 1, b

    def sendcontrol(self, char):
        # the table of ptyprocess (outside the repository) is exercised on a real pty by the C08 oracle
        char = char.lower()
        a = ord(char)
        if 97 <= a <= 122:
            return self._ctl(bytes([a - 96]))
        d = {'@': 0, '`': 0, '[': 27, '{': 27, '\\': 28, '|': 28, ']': 29, '}': 29, '^': 30, '~': 30, '_': 31, '?': 127}
        return self._ctl(bytes([d[char]]))

    def sendeof(self):
        return self._ctl(b'\x04')

    def sendintr(self):
        return self._ctl(b'\x03')


def build(pexpect, which, unicode_mode, logs, chunks):
    """which: 0 pty, 1 fd, 2 popen, 3 socket.  chunks: raw byte chunks the OS will deliver, one per read.
    returns (spawn object, context managers, wire list, log sink, reader function)"""
    enc = 'utf-8' if unicode_mode else None
    wire, sink = [], []
    # a kernel that hands out exactly the given chunks: one chunk per read call
    sim = ChunkSim(chunks)
    ctxs = []
    if which == 0:
        c = pexpect.spawn(None, timeout=5, encoding=enc)
        c.ptyproc = FakePtyProc(sim, wire)
        c.child_fd = T.FAKE_FD
        c.closed = False
        c.pid = 4242
        c.delaybeforesend = None
        ctxs = [T.Patched(pexpect, sim, T.FAKE_FD), WireFD(T.FAKE_FD, wire)]
    elif which == 1:
        from pexpect import fdpexpect
        r, w = os.pipe()
        c = fdpexpect.fdspawn(r, timeout=5, encoding=enc)
        c._verif_fds = (r, w)
        ctxs = [T.Patched(pexpect, sim, r), WireFD(r, wire)]
    elif which == 2:
        from pexpect import popen_spawn
        import sys
        c = popen_spawn.PopenSpawn([sys.executable, '-c', 'pass'], timeout=5, encoding=enc)
        c._read_thread.join(10)
        c.proc.wait()
        c._read_queue = queue.Queue()
        c._read_reached_eof = False
        c.flag_eof = False
        c._buf = c.string_type()

        class Stdin:
            def write(self_, b):
                wire.append(bytes(b))
                return len(b)

            def close(self_):
                pass
        c.proc.stdin = Stdin()
    else:
        from pexpect import socket_pexpect

        class Sock(T.FakeSocket):
            # the socket accepts whatever it is given, whichever of the two calls is used
            def sendall(self_, b):
                wire.append(bytes(b))

            def send(self_, b):
                wire.append(bytes(b))
                return len(b)
        c = socket_pexpect.SocketSpawn(Sock(sim), timeout=5, encoding=enc)
        ctxs = [T.Patched(pexpect, sim, T.FAKE_FD)]
    a, r, s = logs
    c.logfile = RecLog(0, sink) if a else None
    c.logfile_read = RecLog(1, sink) if r else None
    c.logfile_send = RecLog(2, sink) if s else None
    c._verif_sim = sim
    return c, ctxs, wire, sink


class ChunkSim(T.Sim):
    """kernel that delivers the prepared chunks, one per read CALL: the next chunk becomes visible only when the
    harness releases it (so that a reader that tops up within one call sees nothing more)"""

    def __init__(self, chunks):
        T.Sim.__init__(self, b'', True, True, [])
        self.chunks = [bytes(c) for c in chunks]
        self.avail = 0

    def release(self):
        self.avail = 1

    def ready(self):
        return bool(self.chunks) and self.avail > 0

    def poll(self):
        return self.ready()

    def read(self, n):
        if not self.ready():
            return 'block'
        self.avail = 0
        return self.chunks.pop(0)

    def isalive(self):
        return True


def run_ops(pexpect, which, unicode_mode, logs, ops):
    """ops: ('read', raw bytes) | ('send', is_str, text) | ('sendline', is_str, text) | ('control', kind, arg).
    Returns (delivered, wire, log events, returns) as python values shaped like IO/Run.v"""
    chunks = [o[1] for o in ops if o[0] == 'read']
    c, ctxs, wire, sink = build(pexpect, which, unicode_mode, logs, chunks)
    delivered, rets = [], []
    import contextlib
    with contextlib.ExitStack() as st:
        for cm in ctxs:
            st.enter_context(cm)
        for o in ops:
            if o[0] == 'read':
                if which == 2:
                    # the reader thread has queued exactly this chunk; the call may take all of it
                    c._read_queue.put(o[1])
                    d = c.read_nonblocking(10 ** 6, timeout=1)
                else:
                    c._verif_sim.release()
                    # like expect(): ask for more than the OS has (a short read says nothing about character boundaries)
                    d = c.read_nonblocking(len(o[1]) + (0 if len(delivered) % 3 == 0 else 1999), timeout=1)
                delivered.append(d)
            elif o[0] in ('send', 'sendline'):
                arg = o[2] if o[1] else o[2].encode('latin-1')
                n = getattr(c, o[0])(arg)
                rets.append(n)
            elif o[0] == 'write':
                arg = o[2] if o[1] else o[2].encode('latin-1')
                c.write(arg)
                rets.append(None)
            elif o[0] == 'writelines':
                # ('writelines', form, [(is_str, text), ...]): any iterable producing strings, also a one-shot one
                items = [(t if is_str else t.encode('latin-1')) for is_str, t in o[2]]
                seq = {'list': lambda: items, 'tuple': lambda: tuple(items), 'gen': lambda: (x for x in items), 'iter': lambda: iter(items)}[o[1]]()
                c.writelines(seq)
                rets.extend([None] * len(items))
            elif o[0] == 'setlogs':
                # the application reassigns the log attributes in the middle of the session
                a, r, s_ = o[1]
                c.logfile = RecLog(0, sink) if a else None
                c.logfile_read = RecLog(1, sink) if r else None
                c.logfile_send = RecLog(2, sink) if s_ else None
            else:
                if o[1] == 'control':
                    n = c.sendcontrol(o[2])
                elif o[1] == 'eof':
                    n = c.sendeof()
                else:
                    n = c.sendintr()
                rets.append(n)
    if which == 1:
        for f in c._verif_fds:
            try:
                os.close(f)
            except OSError:
                pass
    return delivered, wire, sink, rets, c


def coq_ops(ops, control_bytes):
    out = []
    k = 0
    for o in ops:
        if o[0] == 'read':
            out.append('(Read %s)' % ctext(o[1]))
        elif o[0] in ('send', 'write'):
            out.append('(Send %s %s)' % (cbool(o[1]), ctext(o[2])))
        elif o[0] == 'writelines':
            for is_str, t in o[2]:
                out.append('(Send %s %s)' % (cbool(is_str), ctext(t)))
        elif o[0] == 'sendline':
            out.append('(SendLine %s %s)' % (cbool(o[1]), ctext(o[2])))
        elif o[0] == 'setlogs':
            out.append(('XLOGS', '(XLogs %s %s %s)' % tuple(cbool(x) for x in o[1])))
        else:
            out.append('(Control %s)' % cN(control_bytes[k]))
            k += 1
    if any(isinstance(x, tuple) for x in out):
        return clist([x[1] if isinstance(x, tuple) else '(XOp %s)' % x for x in out])
    return clist(out)


def encode_events(sink):
    ev = []
    for e in sink:
        if e[0] == 'w':
            ev.append([0, e[1], e[2]])
        else:
            ev.append([1, e[1]])
    return ev


# every control-character name of the pty transport (ptyprocess.sendcontrol): letters in both cases and the symbol names with their aliases
CONTROL = {}
for _i in range(26):
    CONTROL[chr(97 + _i)] = _i + 1
    CONTROL[chr(65 + _i)] = _i + 1
CONTROL.update({'@': 0, '`': 0, '[': 27, '{': 27, '\\': 28, '|': 28, ']': 29, '}': 29, '^': 30, '~': 30, '_': 31, '?': 127})


def gen_ops(rng, which, unicode_mode, reads=True, sends=True, setlogs=False):
    ops = []
    text_pool = ['a', 'xy', 'é', '☃', '😀', 'b\n', '', 'ü€', '\ufeff', '\x00', '\r\n', '\ufffd']
    stream = ''.join(rng.choice(text_pool) for _ in range(rng.randint(0, 8)))
    raw = stream.encode('utf-8') if unicode_mode else bytes(rng.randrange(256) for _ in range(rng.randint(0, 10)))
    cuts = sorted(set(rng.randrange(len(raw) + 1) for _ in range(rng.randint(0, 4)))) if raw else []
    pieces, prev = [], 0
    for c_ in cuts + [len(raw)]:
        if c_ > prev:
            pieces.append(raw[prev:c_])
            prev = c_
    control_bytes = []
    plan = []
    if reads:
        plan += [('read', p) for p in pieces]
    nsend = rng.randint(0, 4) if sends else 0
    for _ in range(nsend):
        kind = rng.choice(['send', 'send', 'sendline', 'write', 'writelines', 'control'] if which == 0 else ['send', 'send', 'sendline', 'write', 'writelines'])
        if kind == 'control':
            sub = rng.choice(['control', 'control', 'eof', 'intr'])
            if sub == 'control':
                ch = rng.choice(sorted(CONTROL))
                plan_item = ('ctl', 'control', ch)
                control_bytes.append(CONTROL[ch])
            elif sub == 'eof':
                plan_item = ('ctl', 'eof', None)
                control_bytes.append(4)
            else:
                plan_item = ('ctl', 'intr', None)
                control_bytes.append(3)
        elif kind == 'writelines':
            items = []
            for _ in range(rng.randint(0, 3)):
                if unicode_mode or rng.random() < 0.3:
                    items.append((True, ''.join(rng.choice(['a', 'é', 'xyz', '€', '']) for _ in range(rng.randint(0, 2)))))
                else:
                    items.append((False, ''.join(chr(rng.randrange(256)) for _ in range(rng.randint(0, 4)))))
            plan_item = ('writelines', rng.choice(['list', 'tuple', 'gen', 'iter']), items)
        else:
            if unicode_mode:
                t = ''.join(rng.choice(text_pool) for _ in range(rng.randint(0, 3)))
                plan_item = (kind, True, t)
            else:
                if rng.random() < 0.3:
                    t = ''.join(rng.choice(['a', 'é', 'xyz', '€']) for _ in range(rng.randint(0, 3)))
                    plan_item = (kind, True, t)
                else:
                    t = ''.join(chr(rng.randrange(256)) for _ in range(rng.randint(0, 5)))
                    plan_item = (kind, False, t)
        plan.insert(rng.randint(0, len(plan)), plan_item)
    if setlogs and plan:
        plan.insert(rng.randint(0, len(plan)), ('setlogs', (rng.random() < 0.5, rng.random() < 0.5, rng.random() < 0.5)))
    # keep reads in stream order
    reads_in_order = [p for p in plan if p[0] == 'read']
    it = iter(reads_in_order)
    plan = [next(it) if p[0] == 'read' else p for p in plan]
    # control ops appear in plan order: recompute control bytes in that order
    control_bytes = []
    for p in plan:
        if p[0] == 'ctl':
            control_bytes.append(CONTROL[p[2]] if p[1] == 'control' else (4 if p[1] == 'eof' else 3))
    return plan, control_bytes, raw
