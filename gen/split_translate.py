"""K-gen: translate pexpect.utils.split_command_line (Python ast) into Gallina (coq/Gen/SplitCmd.v).

Fail closed: any syntax outside the small fragment below raises Untranslatable, and the check
then reports the tie between model and code as broken instead of guessing.

Fragment understood
  prelude   : NAME = <int constant> | NAME = '' | NAME = [] | NAME = NAME      (loop variables / constants)
  loop      : for c in <the parameter>:  <stmts>
  epilogue  : if <cond>: <stmts>   ...   return arg_list
  stmts     : if/elif/else | NAME = expr | arg_list.append(arg) | None | pass
  expr      : NAME | NAME + c | '' | int constant name
  cond      : NAME == NAME|const-str|int | NAME != '' | c.isspace() | cond or cond | cond and cond | not cond
"""
import ast
import inspect
import textwrap


class Untranslatable(Exception):
    pass


def _fail(node, why):
    raise Untranslatable('%s at line %s: %s' % (why, getattr(node, 'lineno', '?'), ast.dump(node)[:200]))


class Tr:
    def __init__(self, fn_src):
        tree = ast.parse(textwrap.dedent(fn_src))
        if len(tree.body) != 1 or not isinstance(tree.body[0], ast.FunctionDef):
            _fail(tree, 'expected one function')
        self.fn = tree.body[0]
        if len(self.fn.args.args) != 1:
            _fail(self.fn, 'expected one parameter')
        self.param = self.fn.args.args[0].arg
        self.consts = {}       # name -> int
        self.vars = {}         # loop variable -> ('text'|'list'|'int', initial coq term)
        self.cvar = None

    # -- expressions -------------------------------------------------------------------
    def int_of(self, e):
        if isinstance(e, ast.Constant) and isinstance(e.value, int) and not isinstance(e.value, bool):
            return e.value
        if isinstance(e, ast.Name) and e.id in self.consts:
            return self.consts[e.id]
        return None

    def expr(self, e, want):
        """translate an expression of kind `want` ('text' or 'int')"""
        if want == 'int':
            v = self.int_of(e)
            if v is not None:
                return '(%d)%%Z' % v
            if isinstance(e, ast.Name) and self.vars.get(e.id, (None,))[0] == 'int':
                return '(v_%s s)' % e.id
            _fail(e, 'int expression')
        if want == 'text':
            if isinstance(e, ast.Constant) and e.value == '':
                return '[]'
            if isinstance(e, ast.Name) and self.vars.get(e.id, (None,))[0] == 'text':
                return '(v_%s s)' % e.id
            if (isinstance(e, ast.BinOp) and isinstance(e.op, ast.Add) and isinstance(e.left, ast.Name)
                    and self.vars.get(e.left.id, (None,))[0] == 'text'
                    and isinstance(e.right, ast.Name) and e.right.id == self.cvar):
                return '(v_%s s ++ [c])' % e.left.id
            _fail(e, 'text expression')
        _fail(e, 'expression kind')

    def cond(self, e):
        if isinstance(e, ast.BoolOp):
            op = ' || ' if isinstance(e.op, ast.Or) else ' && '
            return '(' + op.join(self.cond(v) for v in e.values) + ')'
        if isinstance(e, ast.UnaryOp) and isinstance(e.op, ast.Not):
            return '(negb %s)' % self.cond(e.operand)
        if isinstance(e, ast.Call):
            f = e.func
            if (isinstance(f, ast.Attribute) and f.attr == 'isspace' and isinstance(f.value, ast.Name)
                    and f.value.id == self.cvar and not e.args and not e.keywords):
                return '(isspace c)'
            _fail(e, 'call in condition')
        if isinstance(e, ast.Compare) and len(e.ops) == 1:
            l, r = e.left, e.comparators[0]
            neg = isinstance(e.ops[0], ast.NotEq)
            if not neg and not isinstance(e.ops[0], ast.Eq):
                _fail(e, 'comparison operator')
            res = None
            if isinstance(l, ast.Name) and l.id == self.cvar:
                if isinstance(r, ast.Constant) and isinstance(r.value, str) and len(r.value) == 1:
                    res = '(N.eqb c %d)' % ord(r.value)
            elif isinstance(l, ast.Name) and self.vars.get(l.id, (None,))[0] == 'int':
                v = self.int_of(r)
                if v is not None:
                    res = '(Z.eqb (v_%s s) (%d))' % (l.id, v)
            elif isinstance(l, ast.Name) and self.vars.get(l.id, (None,))[0] == 'text':
                if isinstance(r, ast.Constant) and r.value == '':
                    res = '(nilb (v_%s s))' % l.id
            if res is None:
                _fail(e, 'comparison')
            return '(negb %s)' % res if neg else res
        _fail(e, 'condition')

    # -- statements --------------------------------------------------------------------
    def block(self, stmts):
        """a Gallina expression of type st, in a context where `s : st` (and `c : N` in the loop)"""
        if not stmts:
            return 's'
        head, rest = stmts[0], stmts[1:]
        k = self.block(rest)
        if isinstance(head, ast.Pass):
            return k
        if isinstance(head, ast.Expr):
            v = head.value
            if isinstance(v, ast.Constant) and (v.value is None or isinstance(v.value, str)):
                return k                                   # `None` / docstring: no effect
            if (isinstance(v, ast.Call) and isinstance(v.func, ast.Attribute) and v.func.attr == 'append'
                    and isinstance(v.func.value, ast.Name)
                    and self.vars.get(v.func.value.id, (None,))[0] == 'list'
                    and len(v.args) == 1 and not v.keywords):
                name = v.func.value.id
                return 'let s := set_%s s (v_%s s ++ [%s]) in %s' % (name, name, self.expr(v.args[0], 'text'), k)
            _fail(head, 'expression statement')
        if isinstance(head, ast.Assign):
            if len(head.targets) != 1 or not isinstance(head.targets[0], ast.Name):
                _fail(head, 'assignment target')
            name = head.targets[0].id
            kind = self.vars.get(name, (None,))[0]
            if kind in ('text', 'int'):
                return 'let s := set_%s s %s in %s' % (name, self.expr(head.value, kind), k)
            _fail(head, 'assignment to unknown variable')
        if isinstance(head, ast.If):
            a = self.block(head.body)
            b = self.block(head.orelse)
            return 'let s := (if %s then %s else %s) in %s' % (self.cond(head.test), a, b, k)
        _fail(head, 'statement')

    def translate(self):
        body = list(self.fn.body)
        if body and isinstance(body[0], ast.Expr) and isinstance(body[0].value, ast.Constant) \
                and isinstance(body[0].value.value, str):
            body = body[1:]
        # prelude
        i = 0
        order = []
        while i < len(body) and isinstance(body[i], ast.Assign):
            st = body[i]
            if len(st.targets) != 1 or not isinstance(st.targets[0], ast.Name):
                _fail(st, 'prelude target')
            name, v = st.targets[0].id, st.value
            if isinstance(v, ast.Constant) and isinstance(v.value, int) and not isinstance(v.value, bool):
                self.consts[name] = v.value
            elif isinstance(v, ast.Constant) and v.value == '':
                self.vars[name] = ('text', '[]')
                order.append(name)
            elif isinstance(v, ast.List) and not v.elts:
                self.vars[name] = ('list', '[]')
                order.append(name)
            elif isinstance(v, ast.Name) and v.id in self.consts:
                self.vars[name] = ('int', '(%d)%%Z' % self.consts[v.id])
                order.append(name)
            else:
                _fail(st, 'prelude value')
            i += 1
        if i >= len(body) or not isinstance(body[i], ast.For):
            _fail(body[i] if i < len(body) else self.fn, 'expected the for loop')
        loop = body[i]
        if (not isinstance(loop.target, ast.Name) or not isinstance(loop.iter, ast.Name)
                or loop.iter.id != self.param or loop.orelse):
            _fail(loop, 'loop header')
        self.cvar = loop.target.id
        for name in order:                       # assigned constants that are also variables are not consts
            self.consts.pop(name, None)
        step = self.block(loop.body)
        tail = body[i + 1:]
        if not tail or not isinstance(tail[-1], ast.Return) or not isinstance(tail[-1].value, ast.Name) \
                or self.vars.get(tail[-1].value.id, (None,))[0] != 'list':
            _fail(tail[-1] if tail else self.fn, 'expected `return <list variable>`')
        ret = tail[-1].value.id
        save, self.cvar = self.cvar, None
        fin = self.block(tail[:-1])
        self.cvar = save
        kinds = {'text': 'list N', 'list': 'list (list N)', 'int': 'Z'}
        fields = '; '.join('v_%s : %s' % (n, kinds[self.vars[n][0]]) for n in order)
        out = ['(* GENERATED by /verif/gen/split_translate.py from pexpect/utils.py:split_command_line -- do not edit *)',
               'From Coq Require Import ZArith NArith List Bool.',
               'Import ListNotations.',
               'From PV Require Import Base.Chars.',
               'Local Open Scope bool_scope.',
               '',
               'Record st := mk { %s }.' % fields]
        for n in order:
            args = ' '.join('(%s)' % ('x' if m == n else 'v_%s s' % m) for m in order)
            out.append('Definition set_%s (s : st) (x : %s) : st := mk %s.' % (n, kinds[self.vars[n][0]], args))
        out.append('Definition init : st := mk %s.' % ' '.join(self.vars[n][1] for n in order))
        for n, v in sorted(self.consts.items()):
            out.append('Definition c_%s : Z := (%d)%%Z.' % (n, v))
        out.append('Definition step (s : st) (c : N) : st :=\n  %s.' % step)
        out.append('Definition finish (s : st) : list (list N) :=\n  let s := (%s) in v_%s s.' % (fin, ret))
        out.append('Definition split (cmd : list N) : list (list N) := finish (fold_left step cmd init).')
        return '\n'.join(out) + '\n'


def generate(repo='/repo'):
    import importlib.util
    import os
    path = os.path.join(repo, 'pexpect', 'utils.py')
    src = open(path).read()
    tree = ast.parse(src)
    for node in tree.body:
        if isinstance(node, ast.FunctionDef) and node.name == 'split_command_line':
            seg = ast.get_source_segment(src, node)
            return Tr(seg).translate()
    raise Untranslatable('split_command_line not found in ' + path)


if __name__ == '__main__':
    import sys
    print(generate(sys.argv[1] if len(sys.argv) > 1 else '/repo'))
