CHECKS = {
 'C13': dict(
   text='Theorems (Coq, closed under the global context) over the definition of split_command_line that is REGENERATED from pexpect/utils.py on every run: quoting any non-empty arguments in any of three styles, joining with whitespace, with leading/trailing whitespace, splits back to exactly that argv (unbounded: all argument lists, all lengths); theorems characterising which() (explicit path / first executable on the effective PATH / env PATH wins / None only if nothing is executable) over a hand-written model tied to the code by in-Coq evaluation on the same inputs. The launch part (cwd, env, window size, echo, SIGHUP) is observed with probe children only.',
   note='Trusted: Coq kernel; the ast->Gallina translator (fail-closed, cross-checked by running the generated definition against the real function); isspace table (checked on all code points); which() model vs code by differential evaluation; exec/fork/ioctl are ptyprocess + kernel (exercised, not proved).',
   technique='Coq proof over model regenerated from source (K-gen) + in-Coq correspondence + direct oracle',
   ref='DESIGN.md section 5 C13'),
}
NOT_YET = {}
