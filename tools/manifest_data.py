CHECKS = {
 'C13': dict(
   text='Theorems (Coq, closed under the global context) over the definition of split_command_line that is REGENERATED from pexpect/utils.py on every run: quoting any non-empty arguments in any of three styles, joining with whitespace, with leading/trailing whitespace, splits back to exactly that argv (unbounded: all argument lists, all lengths); theorems characterising which() (explicit path / first executable on the effective PATH / env PATH wins / None only if nothing is executable) over a hand-written model tied to the code by in-Coq evaluation on the same inputs. The launch part (cwd, env, window size, echo, SIGHUP) is observed with probe children only.',
   note='Trusted: Coq kernel; the ast->Gallina translator (fail-closed, cross-checked by running the generated definition against the real function); isspace table (checked on all code points); which() model vs code by differential evaluation; exec/fork/ioctl are ptyprocess + kernel (exercised, not proved).',
   technique='Coq proof over model regenerated from source (K-gen) + in-Coq correspondence + direct oracle',
   ref='DESIGN.md section 5 C13'),
}
_EXP_NOTE = ('Trusted: Coq kernel; hand-written model Expect/Model.v of expect.py (Expecter, both searchers) and the buffer setter, tied to the code on every run by the correspondence job expect-hist (results, before/after, spans, internal _before/_buffer and events consumed compared after every call, in-Coq evaluation); '
             'Base/PySeq.v (CPython slicing/find, job pysem) and Base/Rx.v (regex engine standing in for re when the model is executed, job rx-vs-re); theorems are parametric in the regex engine (law R: re.search returns the leftmost match). read_nonblocking is abstracted to a list of events Data/TIMEOUT/EOF/error.')
CHECKS.update({
 'C01': dict(
   text='Theorems (Coq, closed under the global context): for every history of expect-family calls from every reachable state over every event list, handed-back text followed by pending text = received text (history_conserves); a TIMEOUT consumes nothing, EOF hands back everything and clears, buffer assignment replaces the pending text. Proved on the naive reference and transferred to the model of the code through the refinement theorem of C03.',
   note=_EXP_NOTE + ' read/readline/readlines/iteration are compositions of expect(); they are judged by a direct oracle on the real code, not by a theorem.',
   technique='Coq proof (refinement + invariant) over hand-written model + in-Coq correspondence + direct oracle', ref='DESIGN.md section 5 C01'),
 'C02': dict(
   text='Theorems: every reported match is the leftmost candidate of pattern i in the searched window, after/before/match span describe that occurrence, no listed pattern has a candidate that starts earlier, first listed wins ties (strict-< fold characterised for all lists), markers keep their list positions. For the string searcher a candidate is proved to be the leftmost occurrence of the literal; for regexes it is what the engine returns (law R), proved for the executable engine.',
   note=_EXP_NOTE + ' Capture groups beyond group 0 are CPython re and are only compared by the direct oracle.',
   technique='Coq proof over hand-written model + in-Coq correspondence + direct oracle', ref='DESIGN.md section 5 C02'),
 'C03': dict(
   text='Central refinement theorem (Coq): for every reachable state, pattern list, searcher kind, window (None or >= 1), timeout-0 flag and every list of transport events, the incremental Expecter = the naive procedure "search all pending text (or its last W characters) after each read": same outcome, before/after, events consumed, pending text; lifted to all histories (W / patterns changing per call, trimmed buffers left by earlier calls, buffer assignments). Includes the incremental tail search of the string searcher (straddling occurrences).',
   note=_EXP_NOTE, technique='Coq refinement proof over hand-written model + in-Coq correspondence + direct oracle', ref='DESIGN.md section 5 C03, Appendix A'),
 'C04': dict(
   text='Theorems: when EOF / TIMEOUT / a transport error ends a call the result is the index of the marker if listed, else that exception, never anything else; before = all pending text; EOF clears pending text and search buffer; a match already present in the searchable pending text wins whatever the transport does next (also with timeout 0); EOF is sticky on an ended stream.',
   note=_EXP_NOTE + ' The exception message formatting (str(spawn)) and the per-transport EOF conditions are exercised by the direct oracle / belong to C06.',
   technique='Coq proof over hand-written model + in-Coq correspondence + direct oracle', ref='DESIGN.md section 5 C04'),
})
CHECKS['C19'] = dict(
   text='Refinement theorems (Coq, closed under the global context): every one of the 27 screen operations, with arbitrary integer arguments, on any well-shaped screen, changes exactly the cells and cursor/saved-cursor/scroll-region fields that a documentation-level reference (grid function, each operation defined cell by cell) changes; lifted by induction to all operation sequences, together with the shape invariant (rows x cols, cursor and scroll region on the screen); get_abs reads that grid. Unbounded in screen size, arguments and sequence length.',
   note='Trusted: Coq kernel; hand-written model Screen/Model.v of screen.py, tied to the code by job screen-ops (whole state and accessors compared after every operation on generated sequences); the reference Screen/Spec.v is our cell-wise reading of the docstrings (where they are silent - vacated row of a scroll, cursor_up_reverse at the top - it follows the source and says so); dump/str/pretty/get_region are compared by correspondence and the reference-grid oracle, not by a theorem; characters are single code points.',
   technique='Coq refinement proof (model vs cell-wise reference) + in-Coq correspondence + reference-grid oracle', ref='DESIGN.md section 5 C19')
NOT_YET = {}
