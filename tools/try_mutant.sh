#!/bin/bash
# usage: tools/try_mutant.sh <patch> <check id>...   applies patch to /repo, runs checks, reverts
set -u
P=$1; shift
cd /repo || exit 2
if ! git apply --check "$P" 2>/dev/null; then
  if ! git apply --3way --check "$P" 2>/dev/null; then echo "PATCH DOES NOT APPLY: $P"; exit 3; fi
fi
git apply "$P" || git apply --3way "$P"
git status --short
cd /verif
saved=$(mktemp -d /verif/.work/evidence.XXXXXX); cp -p evidence/*.json "$saved"/
for id in "$@"; do
  ./check "$id" 2>&1 | grep -E "VIOLATION|KNOWN-FINDING|done:|DISAGREE|FAILED" | cut -c1-400
done
cp -p "$saved"/*.json evidence/; rm -rf "$saved"
git -C /repo reset -q --hard HEAD; git -C /repo status --short
