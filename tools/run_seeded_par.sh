#!/bin/bash
# usage: tools/run_seeded_par.sh [workers]   runs tools/run_seeded.sh for all properties on <workers> scratch worktrees of
# /repo's HEAD (under /tmp, removed afterwards) side by side, and assembles seeded/RESULTS.md.  /repo itself is not touched.
set -u
cd /verif || exit 2
N=${1:-5}
groups=("C01 C06 C11 C16" "C02 C07 C12 C17" "C03 C08 C14 C19" "C04 C09 C15 C20" "C05 C10 C13 C18")   # C13 + C18 (generated Coq files) stay together
rows=$(mktemp /verif/.work/seededrows.XXXXXX)
pids=()
for k in 0 1 2 3 4; do
  wt=/tmp/seedwt_$k
  git -C /repo worktree remove --force $wt 2>/dev/null
  git -C /repo worktree add -q --detach $wt HEAD || exit 2
  ( VERIF_REPO=$wt SEEDED_ROWS=$rows.$k tools/run_seeded.sh ${groups[$k]} > /verif/.work/seeded_par_$k.log 2>&1 ) &
  pids+=($!)
done
for p in "${pids[@]}"; do wait $p; done
{
  echo "# Seeded changes against the checks ($(date -u +%F), quick tier, tree at $(git -C /repo rev-parse --short HEAD))"
  echo
  echo "| property | change | confirmed | verdict of ./check <property> | first failing input reported |"
  echo "|---|---|---|---|---|"
  cat $rows.* | sort
} > seeded/RESULTS.md
rm -f $rows $rows.*
for k in 0 1 2 3 4; do git -C /repo worktree remove --force /tmp/seedwt_$k; done
git -C /repo worktree prune
grep -c "VIOLATION" seeded/RESULTS.md; grep "NOT DETECTED\|does not apply" seeded/RESULTS.md
