#!/usr/bin/env python3
"""Print the prompt given to a fresh sub-agent that seeds a property-breaking change (used for /verif/seeded)."""
import json, sys
pid = sys.argv[1]
for l in open('/verif/properties.jsonl'):
    p = json.loads(l)
    if p['id'] == pid:
        break
else:
    raise SystemExit('no such property')
rnd = sys.argv[2] if len(sys.argv) > 2 else ''
wt = f'/tmp/mut{rnd}_{pid}'
out = f'/tmp/mutout{rnd}_{pid}'
print(f"""You are helping to test a verification framework by playing the role of a developer who introduces a subtle regression.

The code base is the Python library `pexpect` (a pure-Python Expect clone). You have your own scratch git worktree of it at {wt} (detached HEAD). Work ONLY inside {wt} and write your deliverables to {out}. Do NOT read, list or touch /verif or /repo (they are off limits; everything you need is in {wt}). Python to use: /venv/bin/python (3.12, has pytest, ptyprocess). Run things from inside {wt} (e.g. `cd {wt} && /venv/bin/python -m pytest -q -p no:cacheprovider --timeout=900 tests/test_expect.py`); first confirm that `cd {wt} && /venv/bin/python -c "import pexpect; print(pexpect.__file__)"` prints a path under {wt}. Ignore any 'WARNING conda' noise lines.

Here is a semantic property the library is supposed to satisfy:

  id: {p['id']}
  title: {p['title']}
  statement: {p['statement']}
  quantified over: {p['quantifier']['text']}
  code it is anchored in: {', '.join(p['anchors']['files'])}

Your task: produce TWO different, independent, realistic changes to the library source under {wt}/pexpect/ (not the tests), each of which BREAKS this property while the package still imports and the existing test suite still passes. Each change should look like a plausible refactoring/optimisation/bug-fix slip a maintainer could make, and should need something specific to manifest (a particular split of the data into reads, a particular interleaving or timing, a multi-step sequence of calls, an unusual input or parameter value, or two cooperating sites that each look fine alone) — NOT something ordinary use would expose at once. Keep each change small (a few lines).

For each change (call them a and b), deliver in {out}/a/ and {out}/b/:
  * patch.diff — produced with `git -C {wt} diff` against the unmodified HEAD (each patch must apply on its own to a clean checkout; reset the worktree with `git -C {wt} checkout -- .` between the two).
  * demo.py — a small self-contained program (run as `cd <checkout> && /venv/bin/python demo.py`, importing pexpect from the current directory) that exits 0 on the unmodified code and exits non-zero (with a short message saying what went wrong) when the patch is applied. It must be deterministic (no reliance on lucky timing; if timing is involved make the margins generous) and finish within 60 s.
  * notes.md — 5-10 lines: what the change is, why it violates the property, what it needs in order to manifest, and which test files you ran.

Requirements you must verify yourself before finishing, for each patch:
  1. With the patch applied, the whole existing test suite passes: `cd {wt} && /venv/bin/python -m pytest -q -p no:cacheprovider --timeout=900 -x` (this takes about 6 minutes; you may first run only the most relevant test files to iterate quickly, but run the full suite at the end for each patch). A few tests may be skipped; none may fail that passes on the unmodified code.
  2. demo.py fails with the patch and passes without it.
Never use `git stash` (the stash is shared with other worktrees of the same repository); use `git diff > file` and `git checkout -- .` instead. Leave the worktree clean (`git -C {wt} checkout -- .`) when done. In your final message, summarise both changes in a few lines each and state the exact test results you observed.""")
