#!/usr/bin/env python3
"""Re-run, with the seeded patch applied in a scratch worktree, only the baseline tests that did not pass in the full-suite
confirmation run (to separate flaky tests from a real regression); updates meta.json."""
import json, os, subprocess, sys, shutil
pid, name = sys.argv[1:3]
out = '/verif/seeded/%s/%s' % (pid, name)
meta = json.load(open(out + '/meta.json'))
wt = '/tmp/conf_%s_%s' % (pid, name)
def sh(c, **kw): return subprocess.run(c, shell=True, stdout=subprocess.PIPE, stderr=subprocess.STDOUT, text=True, **kw)
sh('git -C /repo worktree remove --force %s' % wt)
assert sh('git -C /repo worktree add --detach %s HEAD' % wt).returncode == 0
try:
    assert sh('cd %s && git apply %s/patch.diff' % (wt, out)).returncode == 0
    ids = []
    for t in meta['baseline_tests_not_passing_with_patch']:
        cls, fn = t.split('::')
        parts = cls.split('.')
        ids.append('%s.py::%s::%s' % ('/'.join(parts[:-1]), parts[-1], fn))
    res = []
    for k in range(3):
        r = sh('cd %s && unshare -n sh -c "ip link set lo up; /venv/bin/python -m pytest -q -p no:cacheprovider --timeout=300 %s"' % (wt, ' '.join(ids)),
               env=dict(os.environ, PYTHONPATH=wt))
        res.append(r.stdout.strip().splitlines()[-1])
    meta['recheck_of_non_passing_tests_x3'] = res
    ok = all(' failed' not in x and 'error' not in x for x in res)
    meta['non_passing_tests_are_flaky'] = ok
    meta['confirmed'] = bool(meta['patch_applies'] and meta['demo_without_patch_exit'] == 0 and meta['demo_with_patch_exit'] != 0 and ok)
finally:
    sh('git -C /repo worktree remove --force %s' % wt); shutil.rmtree(wt, ignore_errors=True)
json.dump(meta, open(out + '/meta.json', 'w'), indent=1)
print(pid, name, meta['confirmed'], res)
