#!/usr/bin/env python3
"""Regenerates MANIFEST.json from tools/manifest_data.py (claimed checks) + properties.jsonl."""
import json, os, sys
sys.path.insert(0, os.path.dirname(__file__))
from manifest_data import CHECKS, NOT_YET
props = [json.loads(l)['id'] for l in open('/verif/properties.jsonl')]
checks = []
for pid in props:
    if pid in CHECKS:
        c = CHECKS[pid]
        checks.append({
            'property_id': pid,
            'quick_cmd': './check %s --tier quick' % pid,
            'thorough_cmd': './check %s --tier thorough' % pid,
            'evidence_file': 'evidence/%s.json' % pid,
            'replay_cmd_template': './check %s --replay {path}' % pid,
            'engine': 'coq-proof+correspondence',
            'level_claimed': {'category': 'proof', 'text': c['text'], 'design_ref': c.get('ref', 'DESIGN.md section 5')},
            'level_note': c['note'],
            'technique': c['technique'],
        })
na = [{'property_id': p, 'reason': NOT_YET.get(p, 'check not built yet in this round (planned, see DESIGN.md section 5); not claimed')}
      for p in props if p not in CHECKS]
m = {
    'version': 1,
    'setup_cmd': './setup.sh',
    'hooks': {'guard': 'PEXPECT_VERIF', 'enable': 'no source hooks are needed: the harness interposes from outside (subclassing SpawnBase, patching module attributes inside the harness process); PEXPECT_VERIF is reserved',
              'baseline_off_cmd': 'cd /repo && /venv/bin/python -m pytest -ra -q -p no:cacheprovider --timeout=900 --continue-on-collection-errors',
              'source_commits': [], 'add_only': True},
    'engines': [{'name': 'coq-proof+correspondence', 'path': 'check', 'serves_properties': sorted(CHECKS),
                 'kind_free_text': 'Coq 8.16 theorems over executable Gallina models (coq/), tied to /repo on every run by regenerated model parts (gen/) and by a correspondence check that evaluates the model inside Coq on the inputs the real code ran on (harness/); a direct property oracle on the real code searches for the concrete failing input when a proof or the correspondence breaks'}],
    'checks': checks,
    'not_applicable': na,
    'notes': 'See DESIGN.md. Fix commits in /repo are listed in known_findings.json (fixed:).',
}
json.dump(m, open('/verif/MANIFEST.json', 'w'), indent=1)
print('checks:', [c['property_id'] for c in checks], 'not claimed:', len(na))
