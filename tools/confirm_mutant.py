#!/usr/bin/env python3
"""Confirm a seeded change independently: in a fresh scratch worktree of /repo's HEAD, the demo passes without the
patch and fails with it, and every test of the stable baseline still passes with the patch.  Writes
/verif/seeded/<id>/<name>/{patch.diff,demo.py,notes.md,meta.json} and removes the worktree.
usage: confirm_mutant.py <property id> <name> <src dir with patch.diff, demo.py[, notes.md]> ["needs" text]"""
import json, os, re, shutil, subprocess, sys, time, xml.etree.ElementTree as ET
pid, name, src = sys.argv[1:4]
needs = sys.argv[4] if len(sys.argv) > 4 else ''
wt = '/tmp/conf_%s_%s' % (pid, name)
out = '/verif/seeded/%s/%s' % (pid, name)
os.makedirs(out, exist_ok=True)
def sh(cmd, **kw):
    return subprocess.run(cmd, shell=True, stdout=subprocess.PIPE, stderr=subprocess.STDOUT, text=True, **kw)
sh('git -C /repo worktree remove --force %s' % wt)
r = sh('git -C /repo worktree add --detach %s HEAD' % wt)
assert r.returncode == 0, r.stdout
meta = {'property': pid, 'name': name, 'base_commit': sh('git -C /repo rev-parse HEAD').stdout.strip(), 'needs_to_manifest': needs}
try:
    shutil.copy(os.path.join(src, 'demo.py'), os.path.join(wt, 'demo.py'))
    env = dict(os.environ, PYTHONPATH=wt, PYTHONDONTWRITEBYTECODE='1')
    d0 = sh('cd %s && timeout 120 /venv/bin/python demo.py' % wt, env=env)
    ap = sh('cd %s && (git apply %s/patch.diff || git apply --3way %s/patch.diff)' % (wt, src, src))
    meta['patch_applies'] = ap.returncode == 0
    d1 = sh('cd %s && timeout 120 /venv/bin/python demo.py' % wt, env=env)
    meta['demo_without_patch_exit'] = d0.returncode
    meta['demo_with_patch_exit'] = d1.returncode
    meta['demo_with_patch_output'] = d1.stdout[-600:]
    # the patch as it applies to the current HEAD
    diff = sh('cd %s && git diff -- pexpect' % wt).stdout
    open(os.path.join(out, 'patch.diff'), 'w').write(diff)
    shutil.copy(os.path.join(src, 'demo.py'), os.path.join(out, 'demo.py'))
    if os.path.exists(os.path.join(src, 'notes.md')):
        shutil.copy(os.path.join(src, 'notes.md'), os.path.join(out, 'notes.md'))
    # full suite in a private network namespace (the socket tests bind a fixed port)
    t0 = time.time()
    junit = os.path.join(wt, 'junit.xml')
    t = sh('cd %s && unshare -n sh -c "ip link set lo up 2>/dev/null; /venv/bin/python -m pytest -q -p no:cacheprovider --timeout=900 --continue-on-collection-errors --junitxml=%s" ' % (wt, junit), env=env)
    meta['suite_wall_s'] = round(time.time() - t0)
    meta['suite_tail'] = t.stdout.strip().splitlines()[-1] if t.stdout.strip() else ''
    base = set(json.load(open('/root/.vp/BASELINE.json'))['stable_pass'])
    passed = set()
    for tc in ET.parse(junit).getroot().iter('testcase'):
        if not any(ch.tag in ('failure', 'error', 'skipped') for ch in tc):
            passed.add('%s::%s' % (tc.get('classname'), tc.get('name')))
    missing = sorted(base - passed)
    meta['baseline_tests'] = len(base)
    meta['baseline_tests_not_passing_with_patch'] = missing
    meta['confirmed'] = bool(meta['patch_applies'] and d0.returncode == 0 and d1.returncode != 0 and not missing)
    meta['ran'] = ['demo.py without and with patch', 'full pytest suite with patch (unshare -n), compared with BASELINE.json stable_pass']
finally:
    sh('git -C /repo worktree remove --force %s' % wt)
    shutil.rmtree(wt, ignore_errors=True)
json.dump(meta, open(os.path.join(out, 'meta.json'), 'w'), indent=1)
print(json.dumps({k: meta.get(k) for k in ('property', 'name', 'confirmed', 'demo_without_patch_exit', 'demo_with_patch_exit', 'suite_tail', 'baseline_tests_not_passing_with_patch')}))
