#!/bin/bash
# usage: tools/run_seeded.sh [id ...]   for every seeded change (all, or of the given properties): apply it to the tree under
# test ($VERIF_REPO, default /repo), run the check of its property (quick tier), revert, and record the verdict.
# With SEEDED_ROWS=<file> the table rows are appended to that file only (used by tools/run_seeded_par.sh, which runs
# several of these side by side on scratch worktrees and assembles seeded/RESULTS.md); otherwise seeded/RESULTS.md is written.
set -u
cd /verif || exit 2
R=${VERIF_REPO:-/repo}
if [ -n "$(git -C "$R" status --porcelain)" ]; then echo "$R is not clean"; exit 2; fi
ids=("$@")
out=seeded/RESULTS.md
mkdir -p /verif/.work
tmp=${SEEDED_ROWS:-$(mktemp /verif/.work/seeded.XXXXXX)}
saved=$(mktemp -d /verif/.work/evidence.XXXXXX)   # evidence of the unchanged tree is put back afterwards
for d in /verif/seeded/C*/*/; do
  id=$(basename "$(dirname "$d")"); name=$(basename "$d")
  if [ ${#ids[@]} -gt 0 ] && [[ ! " ${ids[*]} " =~ " $id " ]]; then continue; fi
  [ -f "$d/patch.diff" ] || continue
  [ -f "$saved/$id.json" ] || cp -p "evidence/$id.json" "$saved"/ 2>/dev/null
  conf=$(python3 -c "import json,sys; print(json.load(open('$d/meta.json')).get('confirmed'))" 2>/dev/null)
  if ! git -C "$R" apply --check "$d/patch.diff" 2>/dev/null && ! git -C "$R" apply --3way --check "$d/patch.diff" 2>/dev/null; then
    echo "| $id | $name | $conf | patch does not apply to the current tree | |" >> "$tmp"; continue
  fi
  git -C "$R" apply "$d/patch.diff" 2>/dev/null || git -C "$R" apply --3way "$d/patch.diff" >/dev/null 2>&1
  t0=$(date +%s)
  log=$(VERIF_REPO="$R" ./check "$id" 2>&1); rc=$?
  t1=$(date +%s)
  git -C "$R" reset -q --hard HEAD
  v=$(echo "$log" | grep -m1 "^VIOLATION" )
  if [ -n "$v" ]; then
    kind="failing input"; echo "$v" | grep -q "no-failing-input-found" && kind="no-failing-input-found"
    rf=$(echo "$v" | sed 's/.*replay=\([^ ]*\).*/\1/')
    what=$(python3 -c "import json,sys; print(json.load(open('$rf')).get('what','')[:160].replace('|','/').replace('\n',' '))" 2>/dev/null)
    echo "| $id | $name | $conf | VIOLATION ($kind), exit $rc, $((t1-t0)) s | $what |" >> "$tmp"
  else
    echo "| $id | $name | $conf | NOT DETECTED (exit $rc) | |" >> "$tmp"
  fi
  echo "$id $name rc=$rc $(echo "$v" | cut -c1-80)"
done
if [ -z "${SEEDED_ROWS:-}" ]; then
  {
    echo "# Seeded changes against the checks ($(date -u +%F), quick tier, tree at $(git -C "$R" rev-parse --short HEAD))"
    echo
    echo "| property | change | confirmed | verdict of ./check <property> | first failing input reported |"
    echo "|---|---|---|---|---|"
    sort "$tmp"
  } > "$out"
  rm -f "$tmp"
fi
cp -p "$saved"/*.json evidence/ 2>/dev/null; rm -rf "$saved"
git -C "$R" status --short
