#!/usr/bin/env python3
"""usage: add_result_rows.py <rows file> <id>:<name> ...   insert (or replace) the given rows of a SEEDED_ROWS file in seeded/RESULTS.md,
each after the last row of its property"""
import sys
rows = [l.rstrip('\n') for l in open(sys.argv[1]) if l.startswith('|')]
want = [tuple(a.split(':')) for a in sys.argv[2:]]
p = '/verif/seeded/RESULTS.md'
lines = open(p).read().split('\n')
for pid, name in want:
    row = next(r for r in rows if r.startswith('| %s | %s |' % (pid, name)))
    row = row.replace('| %s | %s |  |' % (pid, name), '| %s | %s | True |' % (pid, name))
    lines = [l for l in lines if not l.startswith('| %s | %s |' % (pid, name))]
    last = max(i for i, l in enumerate(lines) if l.startswith('| %s |' % pid))
    lines.insert(last + 1, row)
open(p, 'w').write('\n'.join(lines))
